//! @module src/dsyms.rs
//! @property C02
//! @also C05
//! encodes: collect_orbits, PartialDSym::{new, from(SimpleDSet), from(PartialDSet), set_v, op, r, v, m,
//!          is_complete}, SimpleDSym::{from_partial, from, op, r, v, m}, derived::{as_dset, as_partial_dsym,
//!          as_dsym, build_set, build_sym_using_vs} — compiled from the current tree.
//! clause:  "r(i,j,d) is the length of the orbit of d under the product of operations i and j, m = r*v, and r, v,
//!          m are symmetric in i,j and constant on (i,j)-orbits; all representations of the same symbol return
//!          identical answers for every index pair and chamber, and out-of-range arguments give None rather
//!          than a panic".
//! bound:   N chambers, dimension D per harness name: EVERY valid D-symbol of that shape (complete
//!          involutions, operations with |i-j| > 1 commute, branching v in 1..=7 constant on 2-orbits), every
//!          index pair i, j in 0..=D+1, every chamber d in 0..=N+1.
//! oracle:  orbit length by a fixed-trip loop over the harness's own array copy (c02_dsets.rs::Ops).
//! not decided: see c02_dsets.rs (everything through `Traversal`).
//! stubs:   none.
#![allow(unused_imports, dead_code)]
use super::*;
use crate::dsets::verif_c02_dsets::{build_partial, build_simple, sym_ops, Ops};
use crate::verif_support::{assume, reach_end, vin};

fn opt(x: usize) -> Option<usize> {
    if x == 0 { None } else { Some(x) }
}

/// symbolic branching numbers, constant on (i,i+1)-orbits; vs[i][d-1]
pub(crate) fn sym_vs<const N: usize, const D1: usize>(o: &Ops<N, D1>) -> [[usize; N]; D1] {
    let mut vs = [[1usize; N]; D1];
    let mut i = 0;
    while i + 1 < D1 {
        let mut d = 0;
        while d < N {
            let v: usize = vin();
            assume(1 <= v && v <= 7);
            vs[i][d] = v;
            d += 1;
        }
        i += 1;
    }
    let mut i = 0;
    while i + 1 < D1 {
        let mut d = 1;
        while d <= N {
            assume(vs[i][o.get(i, d) - 1] == vs[i][d - 1]);
            assume(vs[i][o.get(i + 1, d) - 1] == vs[i][d - 1]);
            d += 1;
        }
        i += 1;
    }
    vs
}

pub(crate) fn build_partial_dsym<const N: usize, const D1: usize>(o: &Ops<N, D1>, vs: &[[usize; N]; D1])
    -> PartialDSym
{
    let mut ds = PartialDSym::from(build_simple(o));
    let mut i = 0;
    while i + 1 < D1 {
        let mut d = 1;
        while d <= N {
            ds.set_v(i, d, vs[i][d - 1]);
            d += 1;
        }
        i += 1;
    }
    ds
}

/// expected r and v for a valid D-symbol
fn want_r<const N: usize, const D1: usize>(o: &Ops<N, D1>, i: usize, j: usize, d: usize) -> usize {
    o.orbit_len(i, j, d)
}

fn want_v<const N: usize, const D1: usize>(
    o: &Ops<N, D1>, vs: &[[usize; N]; D1], i: usize, j: usize, d: usize
) -> usize {
    if i == j {
        1
    } else if j == i + 1 {
        vs[i][d - 1]
    } else if i == j + 1 {
        vs[j][d - 1]
    } else {
        // m(i,j) = 2 for non-adjacent indices of a D-symbol: v = 2 / r
        2 / o.orbit_len(i, j, d)
    }
}

fn check_dsym<T: DSym, const N: usize, const D1: usize>(
    ds: &T, o: &Ops<N, D1>, vs: &[[usize; N]; D1], part: u8
) {
    let dim = D1 - 1;
    assert!(ds.size() == N && ds.dim() == dim, "C02.dsym.size_dim");
    let i: usize = vin();
    let j: usize = vin();
    let d: usize = vin();
    assume(i <= D1 && j <= D1 && d <= N + 1);
    let in_range = i <= dim && j <= dim && 1 <= d && d <= N;

    // the obligations are spread over three harnesses per shape (memory): part 0 = values and
    // None out of range, part 1 = symmetry in (i, j), part 2 = constancy on (i, j)-orbits
    if part == 0 {
        let e = ds.op(i, d);
        let op_in_range = i <= dim && 1 <= d && d <= N;
        assert!(e == if op_in_range { opt(o.get(i, d)) } else { None }, "C02.dsym.op");
        let r = ds.r(i, j, d);
        let v = ds.v(i, j, d);
        let m = ds.m(i, j, d);
        if !in_range {
            assert!(r.is_none(), "C02.dsym.r_none_out_of_range");
            assert!(v.is_none(), "C02.dsym.v_none_out_of_range");
            assert!(m.is_none(), "C02.dsym.m_none_out_of_range");
        } else {
            let wr = want_r(o, i, j, d);
            let wv = want_v(o, vs, i, j, d);
            assert!(r == Some(wr), "C02.dsym.r_is_orbit_length");
            assert!(v == Some(wv), "C02.dsym.v");
            assert!(m == Some(wr * wv), "C02.dsym.m_is_r_times_v");
        }
    } else if part == 1 {
        // symmetric in (i, j) -- including the out-of-range Nones
        assert!(ds.r(j, i, d) == ds.r(i, j, d), "C02.dsym.r_symmetric");
        assert!(ds.v(j, i, d) == ds.v(i, j, d), "C02.dsym.v_symmetric");
        assert!(ds.m(j, i, d) == ds.m(i, j, d), "C02.dsym.m_symmetric");
    } else if in_range {
        // constant on the (i,j)-orbit: enough to step once with each generator
        let di = o.get(i, d);
        let dj = o.get(j, d);
        let m = ds.m(i, j, d);
        let r = ds.r(i, j, d);
        assert!(ds.m(i, j, di) == m && ds.m(i, j, dj) == m, "C02.dsym.m_constant_on_orbit");
        assert!(ds.r(i, j, di) == r && ds.r(i, j, dj) == r, "C02.dsym.r_constant_on_orbit");
    }
}

fn partial_dsym_body<const N: usize, const D1: usize, const PART: u8>(reach: bool) {
    let o = sym_ops::<N, D1>(true);
    assume(o.commuting());
    let vs = sym_vs(&o);
    let ds = build_partial_dsym(&o, &vs);
    assert!(ds.is_complete(), "C02.dsym.partial_is_complete");
    check_dsym(&ds, &o, &vs, PART);
    reach_end(reach);
    std::mem::forget(ds);
}

/// a PartialDSym in which some 2-orbits have no branching number yet (v = 0): `is_complete` must say so,
/// v / m report the unassigned orbits as 0 and the assigned ones exactly
fn partial_unassigned_body<const N: usize, const D1: usize>(reach: bool) {
    let o = sym_ops::<N, D1>(true);
    assume(o.commuting());
    let mut vs = [[1usize; N]; D1];
    let mut i = 0;
    while i + 1 < D1 {
        let mut d = 0;
        while d < N {
            let v: usize = vin();
            assume(v <= 3);
            vs[i][d] = v;
            d += 1;
        }
        i += 1;
    }
    let mut i = 0;
    while i + 1 < D1 {
        let mut d = 1;
        while d <= N {
            assume(vs[i][o.get(i, d) - 1] == vs[i][d - 1]);
            assume(vs[i][o.get(i + 1, d) - 1] == vs[i][d - 1]);
            d += 1;
        }
        i += 1;
    }
    let mut ds = PartialDSym::from(build_simple(&o));
    let mut all_assigned = true;
    let mut i = 0;
    while i + 1 < D1 {
        let mut d = 1;
        while d <= N {
            if vs[i][d - 1] != 0 {
                ds.set_v(i, d, vs[i][d - 1]);
            } else {
                all_assigned = false;
            }
            d += 1;
        }
        i += 1;
    }
    assert!(ds.is_complete() == all_assigned, "C02.dsym.is_complete_needs_every_v");
    let i: usize = vin();
    let d: usize = vin();
    assume(i < D1 - 1 && 1 <= d && d <= N);
    assert!(ds.v(i, i + 1, d) == Some(vs[i][d - 1]), "C02.dsym.v_unassigned_is_zero");
    assert!(ds.v(i + 1, i, d) == Some(vs[i][d - 1]), "C02.dsym.v_unassigned_symmetric");
    assert!(ds.m(i, i + 1, d) == Some(vs[i][d - 1] * o.orbit_len(i, i + 1, d)), "C02.dsym.m_unassigned");
    reach_end(reach);
    std::mem::forget(ds);
}

fn simple_dsym_body<const N: usize, const D1: usize, const PART: u8>(reach: bool) {
    let o = sym_ops::<N, D1>(true);
    assume(o.commuting());
    let vs = sym_vs(&o);
    let ds: SimpleDSym = build_partial_dsym(&o, &vs).into();
    assert!(ds.is_complete(), "C02.dsym.simple_is_complete");
    check_dsym(&ds, &o, &vs, PART);
    reach_end(reach);
    std::mem::forget(ds);
}

fn collect_orbits_body<const N: usize, const D1: usize>(reach: bool) {
    let o = sym_ops::<N, D1>(true);
    let ds = build_simple(&o);
    let (rs, chain, index) = collect_orbits(&ds);
    assert!(index.len() == D1 - 1, "C02.collect_orbits.index_rows");
    assert!(rs.len() == chain.len(), "C02.collect_orbits.lengths_agree");
    let i: usize = vin();
    let d: usize = vin();
    assume(i < D1 - 1 && 1 <= d && d <= N);
    assert!(index[i].len() == N + 1, "C02.collect_orbits.index_row_length");
    let k = index[i][d];
    assert!(k < rs.len(), "C02.collect_orbits.index_in_range");
    assert!(rs[k] == o.orbit_len(i, i + 1, d), "C02.collect_orbits.r");
    // same orbit <=> same index (orbits of the dihedral group <op_i, op_i+1>)
    let e: usize = vin();
    assume(1 <= e && e <= N);
    let same_orbit = o.orbit_min(i, i + 1, d) == o.orbit_min(i, i + 1, e);
    assert!((index[i][e] == k) == same_orbit, "C02.collect_orbits.index_is_orbit");
    // chain flag: some chamber of the orbit is fixed by op_i or op_i+1
    let mut has_fixed = false;
    let mut c = 1;
    while c <= N {
        if o.orbit_min(i, i + 1, c) == o.orbit_min(i, i + 1, d)
            && (o.get(i, c) == c || o.get(i + 1, c) == c)
        {
            has_fixed = true;
        }
        c += 1;
    }
    assert!(chain[k] == has_fixed, "C02.collect_orbits.chain_flag");
    // orbit numbers of different index pairs do not collide
    let i2: usize = vin();
    assume(i2 < D1 - 1 && i2 != i);
    assert!(index[i2][e] != k, "C02.collect_orbits.index_distinct_across_pairs");
    reach_end(reach);
    std::mem::forget((ds, rs, chain, index));
}

/// every conversion yields a representation with identical answers
fn conversions_body<const N: usize, const D1: usize, const WHICH: u8>(reach: bool) {
    let o = sym_ops::<N, D1>(true);
    assume(o.commuting());
    let vs = sym_vs(&o);
    let ds = build_partial_dsym(&o, &vs);
    let which = WHICH;
    let i: usize = vin();
    let j: usize = vin();
    let d: usize = vin();
    assume(i <= D1 && j <= D1 && d <= N + 1);
    if which == 0 {
        let c = crate::derived::as_partial_dsym(&ds);
        assert!(c.op(i, d) == ds.op(i, d), "C02.conv.as_partial_dsym.op");
        assert!(c.r(i, j, d) == ds.r(i, j, d), "C02.conv.as_partial_dsym.r");
        assert!(c.v(i, j, d) == ds.v(i, j, d), "C02.conv.as_partial_dsym.v");
        assert!(c.m(i, j, d) == ds.m(i, j, d), "C02.conv.as_partial_dsym.m");
        std::mem::forget(c);
    } else if which == 1 {
        let c = crate::derived::as_dset(&ds);
        assert!(c.op(i, d) == ds.op(i, d), "C02.conv.as_dset.op");
        assert!(c.r(i, j, d) == ds.r(i, j, d), "C02.conv.as_dset.r");
        std::mem::forget(c);
    } else {
        let c = crate::derived::as_dsym(&ds);
        assert!(c.op(i, d) == ds.op(i, d), "C02.conv.as_dsym.op");
        assert!(c.r(i, j, d) == ds.r(i, j, d), "C02.conv.as_dsym.r");
        let in_range = i <= D1 - 1 && j <= D1 - 1 && 1 <= d && d <= N;
        if in_range && (j == i + 1 || i == j + 1) {
            assert!(c.v(i, j, d) == Some(1), "C02.conv.as_dsym.v_is_one");
        }
        std::mem::forget(c);
    }
    reach_end(reach);
    std::mem::forget(ds);
}

macro_rules! proofs {
    ($($name:ident => $call:expr;)*) => {$(
        #[cfg_attr(kani, kani::proof)]
        #[cfg_attr(verif_replay, test)]
        fn $name() { $call }
    )*};
}

// @harness c02_partial_dsym_n2d2_values tier=quick unwind=5 block=64 mem=6 timeout=1200
// @harness c02_partial_dsym_n2d2_values_reach tier=quick unwind=5 block=64 mem=6 timeout=1200 twin
// @harness c02_partial_dsym_n2d2_symmetry tier=quick unwind=5 block=64 mem=7 timeout=1200
// @harness c02_partial_dsym_n2d2_orbits tier=quick unwind=5 block=64 mem=7 timeout=1294
// @harness c02_partial_dsym_n2d2_unassigned tier=quick unwind=5 block=64 mem=8 timeout=1500
// @harness c02_partial_dsym_n2d2_unassigned_reach tier=quick unwind=5 block=64 mem=8 timeout=1500 twin
// @harness c02_simple_dsym_n2d2_values tier=quick unwind=5 block=64 mem=6 timeout=1200
// @harness c02_simple_dsym_n2d2_values_reach tier=quick unwind=5 block=64 mem=6 timeout=1200 twin
// @harness c02_simple_dsym_n2d2_symmetry tier=quick unwind=5 block=64 mem=7 timeout=1200
// @harness c02_simple_dsym_n2d2_orbits tier=quick unwind=5 block=64 mem=7 timeout=1310
// @harness c02_collect_orbits_n2d2 tier=quick unwind=5 block=64 mem=6 timeout=1200
// @harness c02_collect_orbits_n2d2_reach tier=quick unwind=5 block=64 mem=6 timeout=1200 twin
// @harness c02_collect_orbits_n3d2 tier=thorough unwind=6 block=128 mem=24 timeout=3000 stretch
// @harness c02_conv_partial_dsym_n2d2 tier=quick unwind=5 block=64 mem=12 timeout=2620
// @harness c02_conv_dset_n2d2 tier=quick unwind=5 block=64 mem=6 timeout=1200
// @harness c02_conv_dsym_n2d2 tier=quick unwind=5 block=64 mem=10 timeout=2195
// @harness c02_conv_dsym_n2d2_reach tier=quick unwind=5 block=64 mem=8 timeout=1200 twin
// @harness c02_partial_dsym_n3d2_values tier=thorough unwind=6 block=128 mem=28 timeout=3600 stretch
// @harness c02_simple_dsym_n3d2_values tier=thorough unwind=6 block=128 mem=28 timeout=3600 stretch
// @harness c02_simple_dsym_n2d3_values tier=thorough unwind=6 block=128 mem=28 timeout=3600 stretch
// @harness c02_simple_dsym_n2d3_symmetry tier=thorough unwind=6 block=128 mem=28 timeout=3600 stretch
// @harness c02_partial_dsym_n2d3_values tier=thorough unwind=6 block=128 mem=28 timeout=3600 stretch
// @harness c02_simple_dsym_n3d3_values tier=thorough unwind=6 block=128 mem=40 timeout=3600 stretch
// @harness c02_simple_dsym_n3d2_symmetry tier=thorough unwind=6 block=128 mem=28 timeout=3600 stretch
// @harness c02_simple_dsym_n3d2_orbits tier=thorough unwind=6 block=128 mem=28 timeout=3600 stretch
// @harness c02_collect_orbits_n3d3 tier=thorough unwind=6 block=128 mem=28 timeout=3600 stretch
// @harness c02_collect_orbits_n4d2 tier=thorough unwind=7 block=128 mem=28 timeout=3600 stretch
proofs! {
    c02_partial_dsym_n2d2_values => partial_dsym_body::<2, 3, 0>(false);
    c02_partial_dsym_n2d2_values_reach => partial_dsym_body::<2, 3, 0>(true);
    c02_partial_dsym_n2d2_symmetry => partial_dsym_body::<2, 3, 1>(false);
    c02_partial_dsym_n2d2_orbits => partial_dsym_body::<2, 3, 2>(false);
    c02_partial_dsym_n2d2_unassigned => partial_unassigned_body::<2, 3>(false);
    c02_partial_dsym_n2d2_unassigned_reach => partial_unassigned_body::<2, 3>(true);
    c02_simple_dsym_n2d2_values => simple_dsym_body::<2, 3, 0>(false);
    c02_simple_dsym_n2d2_values_reach => simple_dsym_body::<2, 3, 0>(true);
    c02_simple_dsym_n2d2_symmetry => simple_dsym_body::<2, 3, 1>(false);
    c02_simple_dsym_n2d2_orbits => simple_dsym_body::<2, 3, 2>(false);
    c02_collect_orbits_n2d2 => collect_orbits_body::<2, 3>(false);
    c02_collect_orbits_n2d2_reach => collect_orbits_body::<2, 3>(true);
    c02_collect_orbits_n3d2 => collect_orbits_body::<3, 3>(false);
    c02_conv_partial_dsym_n2d2 => conversions_body::<2, 3, 0>(false);
    c02_conv_dset_n2d2 => conversions_body::<2, 3, 1>(false);
    c02_conv_dsym_n2d2 => conversions_body::<2, 3, 2>(false);
    c02_conv_dsym_n2d2_reach => conversions_body::<2, 3, 2>(true);
    c02_partial_dsym_n3d2_values => partial_dsym_body::<3, 3, 0>(false);
    c02_simple_dsym_n3d2_values => simple_dsym_body::<3, 3, 0>(false);
    c02_simple_dsym_n2d3_values => simple_dsym_body::<2, 4, 0>(false);
    c02_simple_dsym_n2d3_symmetry => simple_dsym_body::<2, 4, 1>(false);
    c02_partial_dsym_n2d3_values => partial_dsym_body::<2, 4, 0>(false);
    c02_simple_dsym_n3d3_values => simple_dsym_body::<3, 4, 0>(false);
    c02_simple_dsym_n3d2_symmetry => simple_dsym_body::<3, 3, 1>(false);
    c02_simple_dsym_n3d2_orbits => simple_dsym_body::<3, 3, 2>(false);
    c02_collect_orbits_n3d3 => collect_orbits_body::<3, 4>(false);
    c02_collect_orbits_n4d2 => collect_orbits_body::<4, 3>(false);
}
