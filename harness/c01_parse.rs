//! @module src/dsyms.rs
//! @property C01
//! encodes: <PartialDSym as FromStr>::from_str and everything it calls after tokenising: PartialDSet::{new, set,
//!          op_unchecked}, SimpleDSet::from, collect_orbits, PartialDSym::{from, v, r, set_v, op, m} — compiled
//!          from the current tree.
//! clause:  "Parsing an arbitrary string always terminates with either a symbol whose operations are involutions
//!          on 1..size and whose degrees are multiples of the corresponding orbit lengths, or an error value; it
//!          never panics" — decided for everything DOWNSTREAM of the tokenizer.
//! method:  under Kani `parse_dsym::parse_dsymbol` is stubbed (#[kani::stub]) by a function returning an
//!          ARBITRARY `DSymSpec` of a given list shape: arbitrary set/sym counts, size, and EVERY number in
//!          every list an unconstrained usize. Every spec the nom tokenizer can produce for a text with that
//!          many numbers per list is one of these (over-approximation of the tokenizer). In the native replay
//!          the same spec is rendered as text and pushed through the REAL tokenizer and from_str, so a reported
//!          violation is confirmed through the public API on a concrete input string.
//! bound:   header shape in the harness names: `sNdK` = size N, dim K (concrete), `oA_B[_C]` = lengths of the op
//!          lists, `mA[_B]` = lengths of the degree lists; `hdr_*` harnesses pin size / dim to the boundary
//!          values 0, 2^62, 2^63, usize::MAX (allocation-scale sizes, `dim + 1` overflow). Set/sym counts and
//!          EVERY number in every list are unconstrained usize.
//! not decided: the nom tokenizer itself and `Display` (core::fmt and &str iteration: the print->parse round
//!          trip needs a symbolic string of >= 15 bytes through nom — not reachable); so the two round-trip
//!          sentences of C01 are NOT decided. Shapes beyond the listed ones.
//! stubs:   parse_dsym::parse_dsymbol -> arbitrary DSymSpec (Kani only).
#![allow(unused_imports, dead_code, static_mut_refs)]
use super::*;
use crate::parse_dsym::DSymSpec;
use crate::verif_support::{assume, reach_end, vin, vpeek};

const NSHAPE: usize = 24;
const HUGE: usize = 1 << 62;
const TOP: usize = 1 << 63;
/// [op list lengths x4 (0 = list absent), degree list lengths x3, size, dim] -- all concrete; the
/// numbers IN the lists (and set/sym counts) are unconstrained symbolic usize.
const SHAPES: [[usize; 9]; NSHAPE] = [
    [1, 1, 0, 0, 1, 0, 0, 1, 1],          // 0: size 1 dim 1, o1_1 m1
    [1, 1, 0, 0, 1, 0, 0, 2, 1],          // 1: size 2 dim 1, o1_1 m1
    [2, 1, 0, 0, 1, 0, 0, 2, 1],          // 2: size 2 dim 1, o2_1 m1
    [1, 2, 0, 0, 2, 0, 0, 2, 1],          // 3: size 2 dim 1, o1_2 m2
    [2, 2, 0, 0, 2, 0, 0, 2, 1],          // 4: size 2 dim 1, o2_2 m2
    [1, 1, 1, 0, 1, 1, 0, 1, 2],          // 5: size 1 dim 2, o1_1_1 m1_1
    [1, 1, 1, 0, 1, 1, 0, 2, 2],          // 6: size 2 dim 2, o1_1_1 m1_1
    [2, 1, 2, 0, 1, 2, 0, 2, 2],          // 7: size 2 dim 2, o2_1_2 m1_2
    [2, 2, 0, 0, 2, 0, 0, 3, 1],          // 8: size 3 dim 1, o2_2 m2
    [1, 1, 0, 0, 1, 1, 0, 1, 1],          // 9: wrong number of degree lists
    [1, 1, 1, 0, 1, 0, 0, 1, 1],          // 10: wrong number of op lists
    [1, 1, 0, 0, 1, 0, 0, 0, 1],          // 11: header: size 0
    [1, 1, 0, 0, 1, 0, 0, 1, 0],          // 12: header: dim 0
    [1, 1, 0, 0, 1, 0, 0, 1, usize::MAX], // 13: header: dim + 1 overflows
    [1, 1, 0, 0, 1, 0, 0, HUGE, 1],       // 14: header: size * (dim + 1) * 8 exceeds the address space
    [1, 1, 0, 0, 1, 0, 0, TOP, 1],        // 15: header: size * (dim + 1) overflows usize
    [1, 1, 0, 0, 1, 0, 0, usize::MAX, 1], // 16: header: size = usize::MAX
    [1, 1, 0, 0, 1, 0, 0, 3, 1],          // 17: header: more chambers than the lists can define
    [1, 1, 1, 1, 1, 1, 1, 1, 3],          // 18: size 1 dim 3
    [3, 1, 0, 0, 1, 0, 0, 2, 1],          // 19: more numbers than chambers
    [1, 1, 0, 0, 1, 0, 0, 1, 3],          // 20: header dimension larger than the lists given
    [1, 1, 1, 0, 1, 1, 0, 1, 1],          // 21: header dimension smaller than the lists given
    [1, 1, 0, 0, 2, 0, 0, 2, 1],          // 22: size 2 dim 1, o1_1 m2 (two swaps: two orbits of length 1)
    [1, 2, 0, 0, 1, 0, 0, 2, 1],          // 23: size 2 dim 1, o1_2 m1 (swap, then fixed points: one orbit of length 2)
];

// odd bit pattern: see the note on constant merging in support.rs
const SHAPE_BASE: usize = 0x5AFE_5A1E_0000_0000;
static mut VERIF_SHAPE: usize = SHAPE_BASE;

fn sym_list(len: usize) -> Vec<usize> {
    let mut v = Vec::with_capacity(len);
    let mut k = 0;
    while k < len {
        let x: usize = vin();
        v.push(x);
        k += 1;
    }
    v
}

fn make_spec(shape: usize) -> DSymSpec {
    let sh = SHAPES[shape];
    let set_count: usize = vin();
    let sym_count: usize = vin();
    let size: usize = sh[7];
    let dim: usize = sh[8];
    let mut op_spec = Vec::with_capacity(4);
    let mut k = 0;
    while k < 4 {
        if sh[k] > 0 {
            op_spec.push(sym_list(sh[k]));
        }
        k += 1;
    }
    let mut m_spec = Vec::with_capacity(3);
    let mut k = 0;
    while k < 3 {
        if sh[4 + k] > 0 {
            m_spec.push(sym_list(sh[4 + k]));
        }
        k += 1;
    }
    DSymSpec { set_count, sym_count, size, dim, op_spec, m_spec }
}

#[cfg(kani)]
fn stub_parse_dsymbol(_input: &str) -> Result<(&str, DSymSpec), String> {
    let shape = unsafe { VERIF_SHAPE } - SHAPE_BASE;
    Ok(("", make_spec(shape)))
}

#[cfg(kani)]
fn run_from_str(shape: usize) -> Result<PartialDSym, String> {
    unsafe {
        VERIF_SHAPE = SHAPE_BASE + shape;
    }
    PartialDSym::from_str("")
}

/// native replay: render the same spec as text and go through the real tokenizer
#[cfg(not(kani))]
fn run_from_str(shape: usize) -> Result<PartialDSym, String> {
    let spec = make_spec(shape);
    let lists = |ls: &Vec<Vec<usize>>| {
        ls.iter()
            .map(|l| l.iter().map(|x| x.to_string()).collect::<Vec<_>>().join(" "))
            .collect::<Vec<_>>()
            .join(",")
    };
    let text = format!(
        "<{}.{}:{} {}:{}:{}>",
        spec.set_count, spec.sym_count, spec.size, spec.dim, lists(&spec.op_spec), lists(&spec.m_spec)
    );
    eprintln!("VERIF_REPLAY_INPUT {}", text);
    // the tokenizer must hand from_str exactly this spec
    if let Ok((_, parsed)) = crate::parse_dsym::parse_dsymbol(&text) {
        assert!(parsed == spec, "C01.harness.tokenizer_agrees_with_spec");
    }
    PartialDSym::from_str(&text)
}

/// position, in draw order, of entry `e` of op list `i` / degree list `i` (see make_spec)
fn op_entry(shape: usize, i: usize, e: usize) -> usize {
    let sh = SHAPES[shape];
    let mut k = 2;
    let mut l = 0;
    while l < i {
        k += sh[l];
        l += 1;
    }
    vpeek(k + e) as usize
}

fn m_entry(shape: usize, i: usize, e: usize) -> usize {
    let sh = SHAPES[shape];
    let mut k = 2 + sh[0] + sh[1] + sh[2] + sh[3];
    let mut l = 0;
    while l < i {
        k += sh[4 + l];
        l += 1;
    }
    vpeek(k + e) as usize
}

fn parse_body<const SHAPE: usize, const SMAX: usize, const DMAX: usize>(reach: bool) {
    // any panic inside from_str (assert!, overflow, index, unwrap) is a CBMC property failure
    let res = run_from_str(SHAPE);
    if let Ok(ds) = res {
        let (n, dim) = (ds.size(), ds.dim());
        assert!(1 <= n && 1 <= dim, "C01.ok.size_dim_positive");
        // the symbol is the one the text describes: header and list counts agree
        let sh = SHAPES[SHAPE];
        let n_ops = (sh[0] > 0) as usize + (sh[1] > 0) as usize + (sh[2] > 0) as usize + (sh[3] > 0) as usize;
        let n_ms = (sh[4] > 0) as usize + (sh[5] > 0) as usize + (sh[6] > 0) as usize;
        assert!(n == sh[7] && dim == sh[8], "C01.ok.header_respected");
        assert!(n_ops == dim + 1 && n_ms == dim, "C01.ok.list_counts_match_dimension");
        if n <= SMAX && dim <= DMAX {
            let i: usize = vin();
            let d: usize = vin();
            assume(i <= dim && 1 <= d && d <= n);
            // operations are involutions on 1..=size
            let e = ds.op(i, d);
            assert!(e.is_some(), "C01.ok.op_defined");
            let e = e.unwrap();
            assert!(1 <= e && e <= n, "C01.ok.op_in_range");
            assert!(ds.op(i, e) == Some(d), "C01.ok.op_involution");
            // degrees are multiples of the orbit lengths (orbit length recomputed from the ops)
            if i < dim {
                let mut len = 0;
                let mut c = d;
                let mut done = false;
                let mut k = 0;
                while k < SMAX {
                    if !done {
                        let ci = ds.op(i, c).unwrap();
                        c = ds.op(i + 1, ci).unwrap();
                        len += 1;
                        if c == d {
                            done = true;
                        }
                    }
                    k += 1;
                }
                assert!(done, "C01.ok.orbit_closes");
                assert!(ds.r(i, i + 1, d) == Some(len), "C01.ok.r_is_orbit_length");
                let m = ds.m(i, i + 1, d);
                assert!(m.is_some() && m.unwrap() % len == 0, "C01.ok.degree_multiple_of_orbit_length");
                // the degree is the number written in the text: entry 0 of degree list i belongs to
                // the orbit of chamber 1 (checked when it is non-zero: a zero leaves the orbit open)
                let m0 = m_entry(SHAPE, i, 0);
                if d == 1 && m0 != 0 {
                    assert!(m == Some(m0), "C01.ok.degree_is_the_number_in_the_text");
                }
            }
            // the image of chamber 1 is the first number of each op list
            if d == 1 {
                assert!(e == op_entry(SHAPE, i, 0), "C01.ok.image_is_the_number_in_the_text");
            }
        }
        std::mem::forget(ds);
    } else {
        std::mem::forget(res);
    }
    reach_end(reach);
}

macro_rules! proofs {
    ($($name:ident => $call:expr;)*) => {$(
        #[cfg_attr(kani, kani::proof)]
        #[cfg_attr(kani, kani::stub(crate::parse_dsym::parse_dsymbol, stub_parse_dsymbol))]
        #[cfg_attr(verif_replay, test)]
        fn $name() { $call }
    )*};
}

// @harness c01_s1d1_o1_1_m1 tier=quick unwind=6 block=128 mem=6 timeout=1200
// @harness c01_s1d1_o1_1_m1_reach tier=quick unwind=6 block=128 mem=6 timeout=1200 twin
// @harness c01_s2d1_o1_1_m1 tier=quick unwind=6 block=128 mem=7 timeout=1200
// @harness c01_s2d1_o1_1_m1_reach tier=quick unwind=6 block=128 mem=6 timeout=1200 twin
// @harness c01_s2d1_o2_1_m1 tier=quick unwind=6 block=128 mem=7 timeout=1200
// @harness c01_s2d1_o1_2_m2 tier=quick unwind=6 block=128 mem=7 timeout=1200
// @harness c01_s2d1_o2_2_m2 tier=thorough unwind=6 block=128 mem=30 timeout=3000 stretch
// @harness c01_s1d2_o1_1_1_m1_1 tier=quick unwind=6 block=128 mem=7 timeout=1200
// @harness c01_s2d2_o1_1_1_m1_1 tier=thorough unwind=6 block=128 mem=40 timeout=3600 stretch
// @harness c01_s2d2_o2_1_2_m1_2 tier=thorough unwind=6 block=128 mem=44 timeout=3600 stretch
// @harness c01_s3d1_o2_2_m2 tier=thorough unwind=7 block=128 mem=44 timeout=3600 stretch
// @harness c01_s1d3_o1x4_m1x3 tier=thorough unwind=7 block=128 mem=40 timeout=3600 stretch
// @harness c01_wrong_m_count tier=quick unwind=6 block=128 mem=6 timeout=1200
// @harness c01_wrong_op_count tier=quick unwind=6 block=128 mem=6 timeout=1200
// @harness c01_hdr_size0 tier=quick unwind=6 block=128 mem=6 timeout=1200
// @harness c01_hdr_dim0 tier=quick unwind=6 block=128 mem=6 timeout=1200
// @harness c01_hdr_dim_max tier=quick unwind=6 block=128 mem=6 timeout=1200
// @harness c01_hdr_size_huge tier=quick unwind=6 block=128 mem=6 timeout=1200
// @harness c01_hdr_size_top tier=quick unwind=6 block=128 mem=6 timeout=1200
// @harness c01_hdr_size_max tier=quick unwind=6 block=128 mem=6 timeout=1200
// @harness c01_hdr_size3_short_lists tier=quick unwind=6 block=128 mem=10 timeout=1200
// @harness c01_hdr_size3_short_lists_reach tier=quick unwind=6 block=128 mem=9 timeout=1200 twin
// @harness c01_s2d1_o3_1_m1 tier=quick unwind=6 block=128 mem=7 timeout=1200
// @harness c01_s2d1_o1_1_m2 tier=quick unwind=6 block=128 mem=7 timeout=1200
// @harness c01_s2d1_o1_2_m1 tier=quick unwind=6 block=128 mem=7 timeout=1200
// @harness c01_hdr_dim_too_large tier=quick unwind=6 block=128 mem=6 timeout=1200
// @harness c01_hdr_dim_too_small tier=quick unwind=6 block=128 mem=6 timeout=1200
proofs! {
    c01_s1d1_o1_1_m1 => parse_body::<0, 1, 1>(false);
    c01_s1d1_o1_1_m1_reach => parse_body::<0, 1, 1>(true);
    c01_s2d1_o1_1_m1 => parse_body::<1, 2, 1>(false);
    c01_s2d1_o1_1_m1_reach => parse_body::<1, 2, 1>(true);
    c01_s2d1_o2_1_m1 => parse_body::<2, 2, 1>(false);
    c01_s2d1_o1_2_m2 => parse_body::<3, 2, 1>(false);
    c01_s2d1_o2_2_m2 => parse_body::<4, 2, 1>(false);
    c01_s1d2_o1_1_1_m1_1 => parse_body::<5, 1, 2>(false);
    c01_s2d2_o1_1_1_m1_1 => parse_body::<6, 2, 2>(false);
    c01_s2d2_o2_1_2_m1_2 => parse_body::<7, 2, 2>(false);
    c01_s3d1_o2_2_m2 => parse_body::<8, 3, 1>(false);
    c01_s1d3_o1x4_m1x3 => parse_body::<18, 1, 3>(false);
    c01_wrong_m_count => parse_body::<9, 1, 1>(false);
    c01_wrong_op_count => parse_body::<10, 1, 1>(false);
    c01_hdr_size0 => parse_body::<11, 1, 1>(false);
    c01_hdr_dim0 => parse_body::<12, 1, 1>(false);
    c01_hdr_dim_max => parse_body::<13, 1, 1>(false);
    c01_hdr_size_huge => parse_body::<14, 1, 1>(false);
    c01_hdr_size_top => parse_body::<15, 1, 1>(false);
    c01_hdr_size_max => parse_body::<16, 1, 1>(false);
    c01_hdr_size3_short_lists => parse_body::<17, 3, 1>(false);
    c01_hdr_size3_short_lists_reach => parse_body::<17, 3, 1>(true);
    c01_s2d1_o3_1_m1 => parse_body::<19, 2, 1>(false);
    c01_s2d1_o1_1_m2 => parse_body::<22, 2, 1>(false);
    c01_s2d1_o1_2_m1 => parse_body::<23, 2, 1>(false);
    c01_hdr_dim_too_large => parse_body::<20, 1, 3>(false);
    c01_hdr_dim_too_small => parse_body::<21, 1, 2>(false);
}
