//! @module src/dsets.rs
//! @property C04
//! @also C05
//! encodes: the DSet trait's provided methods `morphism`, `automorphisms` and `degrees_match` — the real generic
//!          code of src/dsets.rs compiled from the current tree — INSTANTIATED for an array-backed implementor
//!          `ArrSym<N, D1>` defined in this harness (required methods size / dim / op and the degree function m
//!          read fixed-size arrays; no heap). One harness per instantiation; the instantiations are named in the
//!          harness names (`_n3d2` = 3 chambers, dimension 2).
//! clause:  "The automorphism list of a connected symbol is exactly the set of operation-commuting,
//!          degree-preserving self-bijections, and morphism search returns a valid morphism whenever one with the
//!          requested base image exists and None otherwise."
//! method:  symbol = EVERY tuple of D1 complete involutions on 1..=N that is connected (fixed-trip reachability
//!          oracle over the array) with EVERY degree function m(i,i+1,.) <= 3 that is constant on (i,i+1)-orbits.
//!          `morphism(self, other, img0)` for every base image img0 in 0..=M+1 (out-of-range ones included):
//!          Some(map) => map has size+1 entries, map[1] = img0, map commutes with every operation and preserves
//!          every degree (soundness); None => NO valid morphism tau with tau(1) = img0 exists, decided against a
//!          fully symbolic candidate tau (completeness). `automorphisms()`: every listed map is an automorphism,
//!          no base image is listed twice, and every valid symbolic candidate tau is listed.
//! bound:   N = M <= 4 chambers, dimension 2 (see the registry); degree values <= 3.
//! not decided: fold / is_minimal / minimal_image (union-find over a HashMap index), "a symbol and each of its
//!          covers have isomorphic minimal images"; partial (incomplete) D-sets.
//! stubs:   none.
#![allow(unused_imports, dead_code)]
use super::*;
use crate::dsets::verif_c02_dsets::{sym_ops, Ops};
use crate::verif_support::{assume, reach_end, vin};

/// array-backed implementor of the DSet trait: the provided methods under test run on top of these four
pub(crate) struct ArrSym<const N: usize, const D1: usize> {
    pub o: Ops<N, D1>,
    /// ms[i][d-1] = m(i, i+1, d) for i < D1 - 1
    pub ms: [[usize; N]; D1],
}

impl<const N: usize, const D1: usize> DSet for ArrSym<N, D1> {
    fn size(&self) -> usize { N }
    fn dim(&self) -> usize { D1 - 1 }
    fn op(&self, i: usize, d: usize) -> Option<usize> {
        let e = self.o.get(i, d);
        if e == 0 { None } else { Some(e) }
    }
    fn m(&self, i: usize, j: usize, d: usize) -> Option<usize> {
        if i >= D1 || j >= D1 || d < 1 || d > N {
            None
        } else if j == i + 1 {
            Some(self.ms[i][d - 1])
        } else if i == j + 1 {
            Some(self.ms[j][d - 1])
        } else if i == j {
            Some(1)
        } else {
            Some(2)
        }
    }
}

pub(crate) fn sym_arrsym<const N: usize, const D1: usize>(connected: bool) -> ArrSym<N, D1> {
    let o = sym_ops::<N, D1>(true);
    let mut ms = [[0usize; N]; D1];
    let mut i = 0;
    while i + 1 < D1 {
        let mut d = 0;
        while d < N {
            let m: usize = vin();
            assume(1 <= m && m <= 3);
            ms[i][d] = m;
            d += 1;
        }
        i += 1;
    }
    // degrees are constant on (i, i+1)-orbits
    let mut i = 0;
    while i + 1 < D1 {
        let mut d = 1;
        while d <= N {
            assume(ms[i][o.get(i, d) - 1] == ms[i][d - 1]);
            assume(ms[i][o.get(i + 1, d) - 1] == ms[i][d - 1]);
            d += 1;
        }
        i += 1;
    }
    if connected {
        // reachability from chamber 1 in N - 1 rounds
        let mut seen = [false; N];
        seen[0] = true;
        let mut round = 1;
        while round < N {
            let mut d = 1;
            while d <= N {
                if seen[d - 1] {
                    let mut i = 0;
                    while i < D1 {
                        seen[o.get(i, d) - 1] = true;
                        i += 1;
                    }
                }
                d += 1;
            }
            round += 1;
        }
        let mut d = 0;
        while d < N {
            assume(seen[d]);
            d += 1;
        }
    }
    ArrSym { o, ms }
}

/// tau: 1..=N -> 1..=M is a morphism a -> b (commutes with every operation, preserves every degree)
fn is_morphism<const N: usize, const M: usize, const D1: usize>(
    a: &ArrSym<N, D1>, b: &ArrSym<M, D1>, tau: &[usize; N],
) -> bool {
    let mut ok = true;
    let mut d = 1;
    while d <= N {
        let t = tau[d - 1];
        if t < 1 || t > M {
            ok = false;
        } else {
            let mut i = 0;
            while i < D1 {
                if tau[a.o.get(i, d) - 1] != b.o.get(i, t) {
                    ok = false;
                }
                if i + 1 < D1 && a.ms[i][d - 1] != b.ms[i][t - 1] {
                    ok = false;
                }
                i += 1;
            }
        }
        d += 1;
    }
    ok
}

fn sym_tau<const N: usize, const M: usize>() -> [usize; N] {
    let mut tau = [0usize; N];
    let mut d = 0;
    while d < N {
        let t: usize = vin();
        assume(1 <= t && t <= M);
        tau[d] = t;
        d += 1;
    }
    tau
}

/// Some(map) must be a morphism with the requested base image; None must mean there is none
fn judge<const N: usize, const M: usize, const D1: usize>(
    a: &ArrSym<N, D1>, b: &ArrSym<M, D1>, img0: usize, res: &Option<Vec<usize>>, tau: &[usize; N],
) {
    match res {
        Some(map) => {
            assert!(map.len() == N + 1, "C04.morphism.map_length");
            assert!(map[1] == img0, "C04.morphism.base_image");
            let d: usize = vin();
            let i: usize = vin();
            assume(1 <= d && d <= N && i < D1);
            let t = map[d];
            assert!(1 <= t && t <= M, "C04.morphism.image_in_range");
            assert!(map[a.o.get(i, d)] == b.o.get(i, t), "C04.morphism.commutes_with_operations");
            if i + 1 < D1 {
                assert!(a.ms[i][d - 1] == b.ms[i][t - 1], "C04.morphism.preserves_degrees");
            }
        }
        None => {
            assert!(!(tau[0] == img0 && is_morphism(a, b, tau)), "C04.morphism.none_only_if_no_morphism");
        }
    }
}

/// ds.morphism(&ds, img0): the call automorphisms() makes
fn self_morphism_body<const N: usize, const D1: usize>(reach: bool) {
    let ds = sym_arrsym::<N, D1>(true);
    let img0: usize = vin();
    assume(img0 <= N + 1);
    let tau = sym_tau::<N, N>();
    let res = ds.morphism(&ds, img0);
    judge(&ds, &ds, img0, &res, &tau);
    reach_end(reach);
    std::mem::forget(res);
}

/// a.morphism(&b, img0) between two different symbols (the source connected)
fn morphism_body<const N: usize, const M: usize, const D1: usize>(reach: bool) {
    let a = sym_arrsym::<N, D1>(true);
    let b = sym_arrsym::<M, D1>(false);
    let img0: usize = vin();
    assume(img0 <= M + 1);
    let tau = sym_tau::<N, M>();
    let res = a.morphism(&b, img0);
    judge(&a, &b, img0, &res, &tau);
    reach_end(reach);
    std::mem::forget(res);
}

fn automorphisms_body<const N: usize, const D1: usize>(reach: bool) {
    let ds = sym_arrsym::<N, D1>(true);
    let tau = sym_tau::<N, N>();
    let list = ds.automorphisms();
    assert!(list.len() <= N, "C04.automorphisms.at_most_size_many");
    // every listed map is an automorphism
    let k: usize = vin();
    if k < list.len() {
        let map = &list[k];
        assert!(map.len() == N + 1, "C04.automorphisms.map_length");
        let mut img = [0usize; N];
        let mut d = 1;
        while d <= N {
            img[d - 1] = map[d];
            d += 1;
        }
        assert!(is_morphism(&ds, &ds, &img), "C04.automorphisms.listed_map_is_automorphism");
        // no base image twice
        let l: usize = vin();
        if l < list.len() && l != k {
            assert!(list[l][1] != map[1], "C04.automorphisms.no_duplicates");
        }
    }
    // every automorphism is listed
    if is_morphism(&ds, &ds, &tau) {
        let mut found = false;
        let mut k = 0;
        while k < N {
            if k < list.len() {
                let mut same = true;
                let mut d = 1;
                while d <= N {
                    if list[k][d] != tau[d - 1] {
                        same = false;
                    }
                    d += 1;
                }
                if same {
                    found = true;
                }
            }
            k += 1;
        }
        assert!(found, "C04.automorphisms.every_automorphism_listed");
    }
    reach_end(reach);
    std::mem::forget(list);
}

macro_rules! proofs {
    ($($name:ident => $call:expr;)*) => {$(
        #[cfg_attr(kani, kani::proof)]
        #[cfg_attr(verif_replay, test)]
        fn $name() { $call }
    )*};
}

// @harness c04_selfmorph_n2d2 tier=quick unwind=4 block=64 mem=8 timeout=1200
// @harness c04_selfmorph_n2d2_reach tier=quick unwind=4 block=64 mem=8 timeout=1200 twin
// @harness c04_selfmorph_n3d2 tier=quick unwind=5 block=64 mem=8 timeout=1200
// @harness c04_selfmorph_n4d2 tier=quick unwind=6 block=64 mem=8 timeout=1800
// @harness c04_selfmorph_n2d3 tier=thorough unwind=5 block=64 mem=12 timeout=1800
// @harness c04_selfmorph_n3d3 tier=quick unwind=5 block=64 mem=8 timeout=1200
// @harness c04_selfmorph_n4d3 tier=quick unwind=6 block=64 mem=8 timeout=1800
// @harness c04_selfmorph_n5d2 tier=thorough unwind=7 block=64 mem=24 timeout=3600 stretch
// @harness c04_morph_n1m1d2 tier=quick unwind=4 block=64 mem=8 timeout=1200
// @harness c04_morph_n1m1d2_reach tier=quick unwind=4 block=64 mem=8 timeout=1200 twin
// @harness c04_morph_n2m1d2 tier=quick unwind=4 block=64 mem=8 timeout=1200
// @harness c04_morph_n2m2d2 tier=quick unwind=4 block=64 mem=8 timeout=1200
// @harness c04_morph_n3m2d2 tier=thorough unwind=5 block=64 mem=12 timeout=1800
// @harness c04_morph_n4m2d2 tier=thorough unwind=6 block=64 mem=16 timeout=3600
// @harness c04_morph_n3m3d2 tier=thorough unwind=5 block=64 mem=16 timeout=3600
// @harness c04_autos_n2d2 tier=quick unwind=4 block=128 small=64 mem=8 timeout=1200
// @harness c04_autos_n2d2_reach tier=quick unwind=4 block=128 small=64 mem=8 timeout=1200 twin
// @harness c04_autos_n3d2 tier=quick unwind=5 block=128 small=64 mem=12 timeout=1800
// @harness c04_autos_n4d2 tier=thorough unwind=6 block=128 small=64 mem=32 timeout=3600 stretch
proofs! {
    c04_selfmorph_n2d2 => self_morphism_body::<2, 3>(false);
    c04_selfmorph_n2d2_reach => self_morphism_body::<2, 3>(true);
    c04_selfmorph_n3d2 => self_morphism_body::<3, 3>(false);
    c04_selfmorph_n4d2 => self_morphism_body::<4, 3>(false);
    c04_selfmorph_n2d3 => self_morphism_body::<2, 4>(false);
    c04_selfmorph_n3d3 => self_morphism_body::<3, 4>(false);
    c04_selfmorph_n4d3 => self_morphism_body::<4, 4>(false);
    c04_selfmorph_n5d2 => self_morphism_body::<5, 3>(false);
    c04_morph_n1m1d2 => morphism_body::<1, 1, 3>(false);
    c04_morph_n1m1d2_reach => morphism_body::<1, 1, 3>(true);
    c04_morph_n2m1d2 => morphism_body::<2, 1, 3>(false);
    c04_morph_n2m2d2 => morphism_body::<2, 2, 3>(false);
    c04_morph_n3m2d2 => morphism_body::<3, 2, 3>(false);
    c04_morph_n4m2d2 => morphism_body::<4, 2, 3>(false);
    c04_morph_n3m3d2 => morphism_body::<3, 3, 3>(false);
    c04_autos_n2d2 => automorphisms_body::<2, 3>(false);
    c04_autos_n2d2_reach => automorphisms_body::<2, 3>(true);
    c04_autos_n3d2 => automorphisms_body::<3, 3>(false);
    c04_autos_n4d2 => automorphisms_body::<4, 3>(false);
}
