//! Shared helpers for every harness (injected into the scratch copy of the
//! crate as `crate::verif_support`, see engine/kc.py).
//!
//! * under `cfg(kani)`: `vin::<T>()` is `kani::any()` plus a store of the value
//!   into the global witness array `VERIF_W`, so that the driver can read the
//!   solver's assignment off the CBMC trace;
//! * under `cfg(verif_replay)` (native build of the *same* harness body on the
//!   real code): `vin()` pops the recorded values, `assume(c)` aborts the
//!   replay (exit code 3) if `c` is false, and assertions are ordinary
//!   `assert!`s.
#![allow(dead_code, static_mut_refs)]

pub const VERIF_WMAX: usize = 96;

// NOTE: the initial values are deliberately odd bit patterns.  Kani's code
// generator merges read-only constant allocations with *any* global of the same
// bytes: with `VERIF_N = 0` the std constant `RawVec::ZERO_CAP` (eight zero
// bytes) was emitted as a read of VERIF_N, so every empty Vec created after the
// k-th input had capacity k (caught by the native replay: non-reproducing
// counterexamples).  Unique patterns cannot collide with a constant.
pub const VERIF_BASE: usize = 0x5EED_C0DE_0000_0000;
pub const VERIF_FILL: u64 = 0xA5A5_5A5A_C3C3_3C3C;
#[cfg(kani)]
#[no_mangle]
pub static mut VERIF_W: [u64; VERIF_WMAX] = [VERIF_FILL; VERIF_WMAX];
#[cfg(kani)]
#[no_mangle]
pub static mut VERIF_N: usize = VERIF_BASE;
/// running checksum over the stored witness; the final `VERIF_WITNESS_GUARD`
/// assertion reads it, which keeps the VERIF_W stores inside the cone of
/// influence when CBMC slices the formula.
#[cfg(kani)]
#[no_mangle]
pub static mut VERIF_ACC: u64 = 0x0DD5_EED5_1234_4321;

pub trait VIn: Sized {
    fn to_u64(&self) -> u64;
    fn from_u64(x: u64) -> Self;
}

macro_rules! vin_int {
    ($($t:ty),*) => {$(
        impl VIn for $t {
            fn to_u64(&self) -> u64 { *self as u64 }
            fn from_u64(x: u64) -> Self { x as $t }
        }
    )*};
}
vin_int!(u8, u16, u32, u64, usize, i8, i16, i32, i64, isize);

impl VIn for bool {
    fn to_u64(&self) -> u64 { *self as u64 }
    fn from_u64(x: u64) -> Self { x != 0 }
}

#[cfg(kani)]
pub fn vin<T: VIn + kani::Arbitrary>() -> T {
    let x: T = kani::any();
    unsafe {
        let k = VERIF_N - VERIF_BASE;
        VERIF_W[k] = x.to_u64();
        VERIF_ACC = VERIF_ACC.rotate_left(7) ^ VERIF_W[k];
        VERIF_N += 1;
    }
    x
}

/// the k-th value drawn so far (k < number of `vin()` calls made)
#[cfg(kani)]
pub fn vpeek(k: usize) -> u64 {
    unsafe { VERIF_W[k] }
}

#[cfg(kani)]
pub fn assume(c: bool) {
    kani::assume(c);
}

#[cfg(not(kani))]
mod native {
    use std::sync::Mutex;
    pub static WITNESS: Mutex<Option<(Vec<u64>, usize)>> = Mutex::new(None);

    pub fn peek(k: usize) -> u64 {
        let g = WITNESS.lock().unwrap();
        let (vals, pos) = g.as_ref().expect("vpeek before the first vin");
        assert!(k < *pos, "vpeek of a value not drawn yet");
        vals[k]
    }

    pub fn next() -> u64 {
        let mut g = WITNESS.lock().unwrap();
        if g.is_none() {
            let path = std::env::var("VERIF_REPLAY_FILE")
                .expect("VERIF_REPLAY_FILE not set");
            let text = std::fs::read_to_string(&path).expect("witness file");
            let vals: Vec<u64> = text
                .split_whitespace()
                .map(|t| t.parse::<u64>().expect("witness value"))
                .collect();
            *g = Some((vals, 0));
        }
        let (vals, pos) = g.as_mut().unwrap();
        if *pos >= vals.len() {
            eprintln!("VERIF_REPLAY_WITNESS_EXHAUSTED");
            std::process::exit(4);
        }
        let v = vals[*pos];
        *pos += 1;
        v
    }
}

#[cfg(not(kani))]
pub fn vin<T: VIn>() -> T {
    T::from_u64(native::next())
}

#[cfg(not(kani))]
pub fn vpeek(k: usize) -> u64 {
    native::peek(k)
}

#[cfg(not(kani))]
pub fn assume(c: bool) {
    if !c {
        eprintln!("VERIF_REPLAY_ASSUME_FAILED");
        std::process::exit(3);
    }
}

/// Vacuity witness: the twin proof of every harness calls the body with
/// `reach = true`; this assertion must then be *violated* (and the violating
/// trace must replay natively up to this line).
pub fn reach_end(reach: bool) {
    #[cfg(kani)]
    {
        let s: u64 = kani::any();
        let acc = unsafe { VERIF_ACC };
        kani::assume(s != acc);
        assert!(s != acc, "VERIF_WITNESS_GUARD");
    }
    if reach {
        assert!(false, "VERIF_REACH_END");
    }
}
