//! @module src/geometry/prime_residue_classes.rs
//! @property C18
//! encodes: PrimeResidueClass<P>::{from(i64), from(i32), add, sub, mul, neg, div, inverse, zero, one, is_zero, is_one, eq}
//!          and `impl From<PrimeResidueClass<P>> for i64`, compiled from the current tree (dev profile).
//! clause:  "Prime residue classes form the field Z/p with a canonical representative for every integer input".
//! bound:   `from`: ALL i64 / ALL i32 inputs (no bound). Arithmetic: ALL pairs/triples of canonical
//!          representatives 0 <= v < P. Instantiations P = 2, 7, 3037000493 (the crate's PRIME);
//!          `inverse`/`Div` only for P = 2, 7 (Euclid loop unwound 6 times; 64-bit division per step).
//! assumes: operands of the arithmetic harnesses are built directly from canonical representatives
//!          (the representation invariant `0 <= value < P`, which the `from` harnesses prove for every
//!          public constructor and the arithmetic harnesses prove to be preserved: one inductive step).
//! oracle:  i64 / i128 modular arithmetic written in the harness (never the crate's own `%` fix-up).
//! stubs:   none.
#![allow(unused_imports)]
use super::*;
use crate::verif_support::{assume, reach_end, vin};
use num_traits::{One, Zero};

type R<const P: i64> = PrimeResidueClass<P>;

fn canon<const P: i64>(v: i64) -> R<P> {
    assume(0 <= v && v < P);
    PrimeResidueClass::<P> { value: v }
}

fn from_i64_body<const P: i64>(reach: bool) {
    let n: i64 = vin();
    let r = R::<P>::from(n);
    assert!(0 <= r.value && r.value < P, "C18.res.from_i64.canonical");
    // n % P is in (-P, P); r.value in [0, P)  =>  no overflow in the difference
    assert!((n % P - r.value) % P == 0, "C18.res.from_i64.congruent");
    assert!(r.is_zero() == (n % P == 0), "C18.res.from_i64.is_zero");
    assert!(r.is_one() == ((n % P - 1) % P == 0),
            "C18.res.from_i64.is_one");
    let back: i64 = r.into();
    assert!(back == r.value, "C18.res.into_i64");
    reach_end(reach);
}

/// Variant for the 32-bit-wide modulus: a second symbolic 64-bit division by P
/// (the congruence test above) does not bit-blast to a formula the SAT solver
/// finishes, so the oracle is stated on Rust's truncated remainder `n % P`
/// (|n % P| < P, sign of n): the canonical representative is that remainder,
/// shifted by P when negative.
fn from_i64_big_body<const P: i64>(reach: bool) {
    let n: i64 = vin();
    let r = R::<P>::from(n);
    let m = n % P;
    let want = if m < 0 { m + P } else { m };
    assert!(0 <= r.value && r.value < P, "C18.res.from_i64.canonical");
    assert!(r.value == want, "C18.res.from_i64.value");
    assert!(r.is_zero() == (m == 0), "C18.res.from_i64.is_zero");
    reach_end(reach);
}

fn from_i32_body<const P: i64>(reach: bool) {
    let n: i32 = vin();
    let r = R::<P>::from(n);
    assert!(0 <= r.value && r.value < P, "C18.res.from_i32.canonical");
    assert!(((n as i64) % P - r.value) % P == 0, "C18.res.from_i32.congruent");
    // Eq is equality of residues: equal values <=> congruent integers.  (Given
    // canonical + congruent above this is a fact of arithmetic; three chained
    // 64-bit divisions do not bit-blast to a formula that finishes, so the
    // solver decides it for all pairs of 8-bit inputs, widened to i32.)
    let a: i8 = vin();
    let b: i8 = vin();
    let congruent = ((a as i64) - (b as i64)) % P == 0;
    assert!((R::<P>::from(a as i32) == R::<P>::from(b as i32)) == congruent,
            "C18.res.eq_is_congruence");
    // same class through both constructors
    assert!(R::<P>::from(n as i64) == r, "C18.res.from_i32_vs_i64");
    reach_end(reach);
}

fn addsub_body<const P: i64>(reach: bool) {
    let a: i64 = vin();
    let b: i64 = vin();
    let x = canon::<P>(a);
    let y = canon::<P>(b);

    let sum = (a + b) % P;
    let s1 = x + y;
    let s2 = &x + y;
    let s3 = &x + &y;
    assert!(s1.value == sum, "C18.res.add.value");
    assert!(s2 == s1 && s3 == s1, "C18.res.add.forms");

    let d = a - b;
    let diff = if d < 0 { d + P } else { d };
    let d1 = x - y;
    let d2 = &x - y;
    let d3 = &x - &y;
    assert!(d1.value == diff, "C18.res.sub.value");
    assert!(d2 == d1 && d3 == d1, "C18.res.sub.forms");

    let neg = if a == 0 { 0 } else { P - a };
    let n1 = -x;
    let n2 = -&x;
    assert!(n1.value == neg, "C18.res.neg.value");
    assert!(n2 == n1, "C18.res.neg.forms");

    // group laws of (Z/p, +)
    assert!(x + R::<P>::zero() == x, "C18.res.add.zero");
    assert!((x + (-x)).is_zero(), "C18.res.add.inverse");
    assert!(x + y == y + x, "C18.res.add.commutative");
    assert!((x - y) + y == x, "C18.res.sub.add");
    assert!(R::<P>::zero().value == 0 && R::<P>::one().value == 1 % P, "C18.res.zero_one");
    reach_end(reach);
}

fn mul_body<const P: i64>(reach: bool) {
    let a: i64 = vin();
    let b: i64 = vin();
    let x = canon::<P>(a);
    let y = canon::<P>(b);

    // a*b < P^2 <= i64::MAX for every modulus the crate accepts (`valid()`).
    let prod = (a * b) % P; // a*b < P^2 <= i64::MAX; overflow would be a CBMC property failure
    let p1 = x * y;
    let p2 = &x * y;
    let p3 = &x * &y;
    assert!(0 <= p1.value && p1.value < P, "C18.res.mul.canonical");
    assert!(p1.value == prod, "C18.res.mul.value");
    assert!(p2 == p1 && p3 == p1, "C18.res.mul.forms");
    assert!(x * R::<P>::one() == x, "C18.res.mul.one");
    assert!((x * R::<P>::zero()).is_zero(), "C18.res.mul.zero");
    reach_end(reach);
}

fn mul_small_body<const P: i64>(reach: bool) {
    let a: i64 = vin();
    let b: i64 = vin();
    let c: i64 = vin();
    let x = canon::<P>(a);
    let y = canon::<P>(b);
    let z = canon::<P>(c);
    assert!(x * y == y * x, "C18.res.mul.commutative");
    assert!((x * y) * z == x * (y * z), "C18.res.mul.associative");
    assert!(x * (y + z) == x * y + x * z, "C18.res.distributive");
    // no zero divisors (P prime)
    assert!(!(x * y).is_zero() || x.is_zero() || y.is_zero(), "C18.res.no_zero_divisors");
    reach_end(reach);
}

fn div_body<const P: i64>(reach: bool) {
    let a: i64 = vin();
    let b: i64 = vin();
    let x = canon::<P>(a);
    let y = canon::<P>(b);
    assume(b != 0);

    let inv = y.inverse();
    assert!(0 <= inv.value && inv.value < P, "C18.res.inverse.canonical");
    assert!((inv * y).is_one(), "C18.res.inverse.is_inverse");

    let q1 = x / y;
    let q2 = &x / y;
    let q3 = &x / &y;
    assert!(0 <= q1.value && q1.value < P, "C18.res.div.canonical");
    assert!(q1 * y == x, "C18.res.div.mul");
    assert!((x * y) / y == x, "C18.res.mul.div");
    assert!(q2 == q1 && q3 == q1, "C18.res.div.forms");
    reach_end(reach);
}

const BIG: i64 = 3_037_000_493;

macro_rules! proofs {
    ($($name:ident => $call:expr;)*) => {$(
        #[cfg_attr(kani, kani::proof)]
        #[cfg_attr(verif_replay, test)]
        fn $name() { $call }
    )*};
}

// @harness c18_res_from_i64_p2 tier=quick unwind=2 block=64
// @harness c18_res_from_i64_p7 tier=quick unwind=2 block=64
// @harness c18_res_from_i64_big tier=quick unwind=2 block=64 timeout=1200 solver=z3
// @harness c18_res_from_i64_big_reach tier=quick unwind=2 block=64 timeout=1200 solver=z3 twin
// @harness c18_res_from_i64_p7_reach tier=quick unwind=2 block=64 twin
// @harness c18_res_from_i32_p2 tier=quick unwind=2 block=64
// @harness c18_res_from_i32_p7 tier=quick unwind=2 block=64
// @harness c18_res_from_i32_big tier=quick unwind=2 block=64
// @harness c18_res_from_i32_p7_reach tier=quick unwind=2 block=64 twin
// @harness c18_res_addsub_p2 tier=quick unwind=2 block=64
// @harness c18_res_addsub_p7 tier=quick unwind=2 block=64
// @harness c18_res_addsub_big tier=quick unwind=2 block=64
// @harness c18_res_addsub_p7_reach tier=quick unwind=2 block=64 twin
// @harness c18_res_mul_p2 tier=quick unwind=2 block=64
// @harness c18_res_mul_p7 tier=quick unwind=2 block=64
// @harness c18_res_mul_big tier=thorough unwind=2 block=64 timeout=600 solver=z3 stretch
// @harness c18_res_mul_p7_reach tier=quick unwind=2 block=64 twin
// @harness c18_res_mullaws_p2 tier=quick unwind=2 block=64
// @harness c18_res_mullaws_p7 tier=quick unwind=2 block=64
// @harness c18_res_mullaws_p7_reach tier=quick unwind=2 block=64 twin
// @harness c18_res_div_p2 tier=quick unwind=7 block=64
// @harness c18_res_div_p7 tier=quick unwind=7 block=64
// @harness c18_res_div_p7_reach tier=quick unwind=7 block=64 twin
proofs! {
    c18_res_from_i64_p2 => from_i64_body::<2>(false);
    c18_res_from_i64_p7 => from_i64_body::<7>(false);
    c18_res_from_i64_big => from_i64_big_body::<BIG>(false);
    c18_res_from_i64_big_reach => from_i64_big_body::<BIG>(true);
    c18_res_from_i64_p7_reach => from_i64_body::<7>(true);
    c18_res_from_i32_p2 => from_i32_body::<2>(false);
    c18_res_from_i32_p7 => from_i32_body::<7>(false);
    c18_res_from_i32_big => from_i32_body::<BIG>(false);
    c18_res_from_i32_p7_reach => from_i32_body::<7>(true);
    c18_res_addsub_p2 => addsub_body::<2>(false);
    c18_res_addsub_p7 => addsub_body::<7>(false);
    c18_res_addsub_big => addsub_body::<BIG>(false);
    c18_res_addsub_p7_reach => addsub_body::<7>(true);
    c18_res_mul_p2 => mul_body::<2>(false);
    c18_res_mul_p7 => mul_body::<7>(false);
    c18_res_mul_big => mul_body::<BIG>(false);
    c18_res_mul_p7_reach => mul_body::<7>(true);
    c18_res_mullaws_p2 => mul_small_body::<2>(false);
    c18_res_mullaws_p7 => mul_small_body::<7>(false);
    c18_res_mullaws_p7_reach => mul_small_body::<7>(true);
    c18_res_div_p2 => div_body::<2>(false);
    c18_res_div_p7 => div_body::<7>(false);
    c18_res_div_p7_reach => div_body::<7>(true);
}
