//! @module src/fpgroups/free_words.rs
//! @property C10
//! encodes: FreeWord::{new, from, empty, len, iter, index, inverse, raised_to, commutator, rotated, clone, eq},
//!          normalized, mul, all Mul impls (&a*&b, &a*b, a*&b, a*b, a*g, &a*g), MulAssign<&FreeWord>,
//!          Ord::cmp / PartialOrd::partial_cmp, relator_representative — compiled from the current tree.
//! clause:  every operation returns a freely reduced word; group axioms; strict total order compatible
//!          with equality; relator representative = least rotation of the word or of its inverse.
//! bound:   G = 2 generators (letters -2..=2, 0 allowed in raw input and dropped by `new`; 3 generators in
//!          the order harness); operand length L per harness name (`_l2`, `_2x2`, `_3x3`, ...): every
//!          raw letter array of that length, hence every reduced word of length <= L.
//! assumes: letters are small (no negation overflow at isize::MIN); `rotated` is only called on
//!          non-empty words (it divides by the length; every caller in the crate guards this).
//! oracle:  stack-based free reduction, concatenation, rotation and the documented order written over
//!          fixed arrays in this file; never the crate's own `normalized`.
//! excluded: relator_permutations (returns a BTreeSet<FreeWord>: not reachable, DESIGN.md §2).
//! stubs:   none.
#![allow(unused_imports, dead_code)]
use super::*;
use crate::verif_support::{assume, reach_end, vin};

#[derive(Clone, Copy)]
struct Arr<const N: usize> {
    v: [isize; N],
    n: usize,
}

fn sym_letters<const L: usize>(g: isize) -> [isize; L] {
    let mut a = [0isize; L];
    let mut i = 0;
    while i < L {
        let x: isize = vin();
        assume(-g <= x && x <= g);
        a[i] = x;
        i += 1;
    }
    a
}

fn arr_of<const L: usize, const N: usize>(a: &[isize; L]) -> Arr<N> {
    let mut r = Arr { v: [0; N], n: L };
    let mut i = 0;
    while i < L {
        r.v[i] = a[i];
        i += 1;
    }
    r
}

/// contents of a FreeWord as a fixed array (asserts the length bound)
fn to_arr<const N: usize>(w: &FreeWord) -> Arr<N> {
    let n = w.w.len();
    assert!(n <= N, "C10.harness.length_bound");
    let mut r = Arr { v: [0; N], n };
    let mut i = 0;
    while i < N {
        if i < n {
            r.v[i] = w.w[i];
        }
        i += 1;
    }
    r
}

/// oracle: free reduction with a stack
fn reduce<const N: usize>(x: &Arr<N>) -> Arr<N> {
    let mut r = Arr { v: [0; N], n: 0 };
    let mut i = 0;
    while i < N {
        if i < x.n {
            let c = x.v[i];
            if c != 0 {
                if r.n > 0 && r.v[r.n - 1] == -c {
                    r.n -= 1;
                    r.v[r.n] = 0;
                } else {
                    r.v[r.n] = c;
                    r.n += 1;
                }
            }
        }
        i += 1;
    }
    r
}

fn concat<const A: usize, const B: usize, const N: usize>(x: &Arr<A>, y: &Arr<B>) -> Arr<N> {
    let mut r = Arr { v: [0; N], n: x.n + y.n };
    let mut i = 0;
    while i < A {
        if i < x.n {
            r.v[i] = x.v[i];
        }
        i += 1;
    }
    let mut j = 0;
    while j < B {
        if j < y.n {
            r.v[x.n + j] = y.v[j];
        }
        j += 1;
    }
    r
}

fn inverse_arr<const N: usize>(x: &Arr<N>) -> Arr<N> {
    let mut r = Arr { v: [0; N], n: x.n };
    let mut i = 0;
    while i < N {
        if i < x.n {
            r.v[i] = -x.v[x.n - 1 - i];
        }
        i += 1;
    }
    r
}

fn same<const N: usize>(w: &FreeWord, x: &Arr<N>) -> bool {
    if w.w.len() != x.n {
        return false;
    }
    let mut ok = true;
    let mut i = 0;
    while i < N {
        if i < x.n && w.w[i] != x.v[i] {
            ok = false;
        }
        i += 1;
    }
    ok
}

fn same_arr<const N: usize>(x: &Arr<N>, y: &Arr<N>) -> bool {
    if x.n != y.n {
        return false;
    }
    let mut ok = true;
    let mut i = 0;
    while i < N {
        if i < x.n && x.v[i] != y.v[i] {
            ok = false;
        }
        i += 1;
    }
    ok
}

fn is_reduced_arr<const N: usize>(x: &Arr<N>) -> bool {
    let mut ok = true;
    let mut i = 0;
    while i < N {
        if i < x.n {
            if x.v[i] == 0 {
                ok = false;
            }
            if i + 1 < x.n && x.v[i] == -x.v[i + 1] {
                ok = false;
            }
        }
        i += 1;
    }
    ok
}

/// reducedness read through the public API (len + Index)
fn is_reduced<const N: usize>(w: &FreeWord) -> bool {
    let n = w.len();
    if n > N {
        return false;
    }
    let mut ok = true;
    let mut i = 0;
    while i < N {
        if i < n {
            if w[i] == 0 {
                ok = false;
            }
            if i + 1 < n && w[i] == -w[i + 1] {
                ok = false;
            }
        }
        i += 1;
    }
    ok
}

/// oracle for the documented order: first differing letter decides — positive
/// before negative, then smaller magnitude first; a proper prefix is smaller.
fn oracle_cmp<const N: usize>(x: &Arr<N>, y: &Arr<N>) -> Ordering {
    let mut res = Ordering::Equal;
    let mut decided = false;
    let mut i = 0;
    while i < N {
        if !decided && i < x.n && i < y.n && x.v[i] != y.v[i] {
            let (a, b) = (x.v[i], y.v[i]);
            let (ka, kb) = (if a > 0 { 0 } else { 1 }, if b > 0 { 0 } else { 1 });
            let (ma, mb) = (if a > 0 { a } else { -a }, if b > 0 { b } else { -b });
            res = if ka != kb {
                if ka < kb { Ordering::Less } else { Ordering::Greater }
            } else if ma < mb {
                Ordering::Less
            } else {
                Ordering::Greater
            };
            decided = true;
        }
        i += 1;
    }
    if !decided {
        res = if x.n < y.n {
            Ordering::Less
        } else if x.n > y.n {
            Ordering::Greater
        } else {
            Ordering::Equal
        };
    }
    res
}

// ---------------------------------------------------------------- constructors

fn new_body<const L: usize>(reach: bool) {
    let raw = sym_letters::<L>(2);
    let want = reduce(&arr_of::<L, L>(&raw));
    let w = FreeWord::new(raw);
    assert!(is_reduced::<L>(&w), "C10.new.reduced");
    assert!(same(&w, &want), "C10.new.is_free_reduction");
    assert!(w.len() == want.n, "C10.new.len");
    let f = FreeWord::from(raw);
    assert!(same(&f, &want), "C10.from.is_free_reduction");
    // idempotent: re-normalising a reduced word changes nothing
    let again = FreeWord::new(w.w.iter().cloned());
    assert!(same(&again, &want), "C10.new.idempotent");
    let c = w.clone();
    assert!(same(&c, &want), "C10.clone");
    // iter() yields exactly the letters
    let mut k = 0;
    let mut ok = true;
    for x in w.iter() {
        if k >= want.n || *x != want.v[k] {
            ok = false;
        }
        k += 1;
    }
    assert!(ok && k == want.n, "C10.iter");
    assert!(FreeWord::empty().len() == 0, "C10.empty");
    reach_end(reach);
    std::mem::forget((w, f, again, c));
}

// ---------------------------------------------------------------- products
// one product per harness: each costs 6-7 GB (256-byte blocks forced by
// `Vec::with_capacity(32)` in `normalized`)

fn mul_body<const LA: usize, const LB: usize, const LAB: usize, const FORM: u8>(reach: bool) {
    let a = FreeWord::new(sym_letters::<LA>(2));
    let b = FreeWord::new(sym_letters::<LB>(2));
    let want = reduce(&concat::<LA, LB, LAB>(&to_arr::<LA>(&a), &to_arr::<LB>(&b)));
    let p = match FORM {
        0 => &a * &b,
        1 => &a * b,
        2 => a * &b,
        _ => a * b,
    };
    assert!(is_reduced::<LAB>(&p), "C10.mul.reduced");
    assert!(same(&p, &want), "C10.mul.value");
    reach_end(reach);
    std::mem::forget(p);
}

fn mulassign_body<const LA: usize, const LB: usize, const LAB: usize>(reach: bool) {
    let mut a = FreeWord::new(sym_letters::<LA>(2));
    let b = FreeWord::new(sym_letters::<LB>(2));
    let want = reduce(&concat::<LA, LB, LAB>(&to_arr::<LA>(&a), &to_arr::<LB>(&b)));
    a *= &b;
    assert!(is_reduced::<LAB>(&a), "C10.mulassign.reduced");
    assert!(same(&a, &want), "C10.mulassign.value");
    reach_end(reach);
    std::mem::forget((a, b));
}

fn mulgen_body<const LA: usize, const LAB: usize, const BYVAL: bool>(reach: bool) {
    let a = FreeWord::new(sym_letters::<LA>(2));
    let g: isize = vin();
    assume(-2 <= g && g <= 2);
    let ga = Arr::<1> { v: [g], n: 1 };
    let want = reduce(&concat::<LA, 1, LAB>(&to_arr::<LA>(&a), &ga));
    let p = if BYVAL { a * g } else { &a * g };
    assert!(is_reduced::<LAB>(&p), "C10.mul.gen.reduced");
    assert!(same(&p, &want), "C10.mul.gen.value");
    reach_end(reach);
    std::mem::forget(p);
}

// ---------------------------------------------------------------- group laws

fn inverse_body<const L: usize>(reach: bool) {
    let a = FreeWord::new(sym_letters::<L>(2));
    let aa = to_arr::<L>(&a);
    let inv = a.inverse();
    assert!(is_reduced::<L>(&inv), "C10.inverse.reduced");
    assert!(same(&inv, &inverse_arr(&aa)), "C10.inverse.value");
    let back = inv.inverse();
    assert!(same(&back, &aa), "C10.inverse.involution");
    reach_end(reach);
    std::mem::forget((a, inv, back));
}

fn cancel_body<const L: usize, const LEFT: bool>(reach: bool) {
    let a = FreeWord::new(sym_letters::<L>(2));
    let inv = a.inverse();
    let p = if LEFT { &inv * &a } else { &a * &inv };
    assert!(p.len() == 0, "C10.inverse.cancels");
    reach_end(reach);
    std::mem::forget((a, inv, p));
}

fn identity_body<const L: usize, const LEFT: bool>(reach: bool) {
    let a = FreeWord::new(sym_letters::<L>(2));
    let aa = to_arr::<L>(&a);
    let e = FreeWord::empty();
    assert!(e.len() == 0, "C10.empty");
    let p = if LEFT { &e * &a } else { &a * &e };
    assert!(same(&p, &aa), "C10.identity");
    reach_end(reach);
    std::mem::forget((a, e, p));
}

fn antihom_body<const LA: usize, const LB: usize, const LAB: usize>(reach: bool) {
    let a = FreeWord::new(sym_letters::<LA>(2));
    let b = FreeWord::new(sym_letters::<LB>(2));
    let (aa, ba) = (to_arr::<LA>(&a), to_arr::<LB>(&b));
    // (a*b)^-1 against the oracle value of b^-1 * a^-1
    let lhs = (&a * &b).inverse();
    let want = reduce(&concat::<LB, LA, LAB>(&inverse_arr(&ba), &inverse_arr(&aa)));
    assert!(is_reduced::<LAB>(&lhs), "C10.antihom.reduced");
    assert!(same(&lhs, &want), "C10.antihom");
    reach_end(reach);
    std::mem::forget((a, b, lhs));
}

fn assoc_body<const LA: usize, const LB: usize, const LC: usize, const LN: usize>(reach: bool) {
    let a = FreeWord::new(sym_letters::<LA>(2));
    let b = FreeWord::new(sym_letters::<LB>(2));
    let c = FreeWord::new(sym_letters::<LC>(2));
    let l = &(&a * &b) * &c;
    let r = &a * &(&b * &c);
    assert!(is_reduced::<LN>(&l), "C10.assoc.reduced");
    assert!(same_arr(&to_arr::<LN>(&l), &to_arr::<LN>(&r)), "C10.assoc");
    reach_end(reach);
    std::mem::forget((a, b, c, l, r));
}

fn eq_body<const L: usize>(reach: bool) {
    // `==` (derived, memcmp on the letters) agrees with letterwise equality,
    // and equal raw spellings of the same group element compare equal
    let a = FreeWord::new(sym_letters::<L>(2));
    let b = FreeWord::new(sym_letters::<L>(2));
    let letterwise = same_arr(&to_arr::<L>(&a), &to_arr::<L>(&b));
    assert!((a == b) == letterwise, "C10.eq.letterwise");
    assert!((a.cmp(&b) == Ordering::Equal) == letterwise, "C10.eq.cmp_equal");
    reach_end(reach);
    std::mem::forget((a, b));
}

// ---------------------------------------------------------------- powers, commutator

fn pow_body<const L: usize, const LN: usize, const M: isize>(reach: bool) {
    let a = FreeWord::new(sym_letters::<L>(2));
    let aa = to_arr::<L>(&a);
    let p = a.raised_to(M);
    assert!(is_reduced::<LN>(&p), "C10.pow.reduced");
    // oracle: reduce(a^|M|) or its inverse, |M| <= 2
    let base = if M < 0 { inverse_arr(&aa) } else { aa };
    let k = if M < 0 { -M } else { M };
    let mut acc = Arr::<LN> { v: [0; LN], n: 0 };
    if k >= 1 {
        acc = reduce(&concat::<LN, L, LN>(&acc, &base));
    }
    if k >= 2 {
        acc = reduce(&concat::<LN, L, LN>(&acc, &base));
    }
    assert!(same(&p, &acc), "C10.pow.value");
    reach_end(reach);
    std::mem::forget((a, p));
}

fn commutator_body<const LA: usize, const LB: usize, const LN: usize>(reach: bool) {
    let a = FreeWord::new(sym_letters::<LA>(2));
    let b = FreeWord::new(sym_letters::<LB>(2));
    let (aa, ba) = (to_arr::<LA>(&a), to_arr::<LB>(&b));
    let c = a.commutator(&b);
    assert!(is_reduced::<LN>(&c), "C10.commutator.reduced");
    let ab = concat::<LA, LB, LN>(&aa, &ba);
    let ai = inverse_arr(&aa);
    let bi = inverse_arr(&ba);
    let aba = concat::<LN, LA, LN>(&ab, &ai);
    let abab = concat::<LN, LB, LN>(&aba, &bi);
    assert!(same(&c, &reduce(&abab)), "C10.commutator.value");
    reach_end(reach);
    std::mem::forget((a, b, c));
}

// ---------------------------------------------------------------- rotation

fn rotated_body<const L: usize>(reach: bool) {
    let a = FreeWord::new(sym_letters::<L>(2));
    let aa = to_arr::<L>(&a);
    assume(aa.n > 0);
    let i: isize = vin();
    assume(-(L as isize) - 1 <= i && i <= 2 * (L as isize) + 1);
    let r = a.rotated(i);
    assert!(is_reduced::<L>(&r), "C10.rotated.reduced");
    // oracle: literal rotation by i mod n, then free reduction
    let n = aa.n as isize;
    let mut s = i;
    while s < 0 {
        s += n;
    }
    while s >= n {
        s -= n;
    }
    let s = s as usize;
    let mut rot = Arr::<L> { v: [0; L], n: aa.n };
    let mut k = 0;
    while k < L {
        if k < aa.n {
            let src = if k + s < aa.n { k + s } else { k + s - aa.n };
            rot.v[k] = aa.v[src];
        }
        k += 1;
    }
    let want = reduce(&rot);
    assert!(same(&r, &want), "C10.rotated.value");
    // cyclically reduced words rotate literally
    if aa.v[0] != -aa.v[aa.n - 1] || aa.n == 1 {
        assert!(r.len() == aa.n, "C10.rotated.cyclically_reduced_keeps_length");
    }
    reach_end(reach);
    std::mem::forget((a, r));
}

// ---------------------------------------------------------------- order

fn order_body<const L: usize>(reach: bool) {
    let a = FreeWord::new(sym_letters::<L>(3));
    let b = FreeWord::new(sym_letters::<L>(3));
    let c = FreeWord::new(sym_letters::<L>(3));
    let (aa, ba, ca) = (to_arr::<L>(&a), to_arr::<L>(&b), to_arr::<L>(&c));
    let ab = a.cmp(&b);
    let ba_ = b.cmp(&a);
    let bc = b.cmp(&c);
    let ac = a.cmp(&c);
    assert!(ab == oracle_cmp(&aa, &ba), "C10.order.documented");
    assert!(ab == ba_.reverse(), "C10.order.antisymmetric");
    assert!((ab == Ordering::Equal) == same_arr(&aa, &ba), "C10.order.equal_iff_same");
    if ab != Ordering::Greater && bc != Ordering::Greater {
        assert!(ac != Ordering::Greater, "C10.order.transitive");
        if ab == Ordering::Less || bc == Ordering::Less {
            assert!(ac == Ordering::Less, "C10.order.transitive_strict");
        }
    }
    assert!(a.partial_cmp(&b) == Some(ab), "C10.order.partial_cmp");
    let lt = a < b;
    let gt = a > b;
    let eq = ab == Ordering::Equal;
    assert!((lt as u8) + (gt as u8) + (eq as u8) == 1, "C10.order.trichotomy");
    reach_end(reach);
    std::mem::forget((a, b, c));
}

// ---------------------------------------------------------------- relator representative

fn rotate_arr<const N: usize>(x: &Arr<N>, s: usize) -> Arr<N> {
    let mut rot = Arr::<N> { v: [0; N], n: x.n };
    let mut k = 0;
    while k < N {
        if k < x.n {
            let src = if k + s < x.n { k + s } else { k + s - x.n };
            rot.v[k] = x.v[src];
        }
        k += 1;
    }
    rot
}

fn relrep_body<const L: usize>(reach: bool) {
    let a = FreeWord::new(sym_letters::<L>(2));
    let aa = to_arr::<L>(&a);
    let rep = relator_representative(&a);
    let ra = to_arr::<L>(&rep);
    assert!(is_reduced::<L>(&rep), "C10.relrep.reduced");
    if aa.n == 0 {
        assert!(ra.n == 0, "C10.relrep.empty");
    } else {
        // least among, and one of: the word itself, all (freely reduced) rotations of the
        // word and the inverses of those -- oracle computed on arrays
        let mut is_one_of = same_arr(&ra, &aa);
        let mut le_all = oracle_cmp(&ra, &aa) != Ordering::Greater;
        let mut k = 0;
        while k < L {
            if k < aa.n {
                let wa = reduce(&rotate_arr(&aa, k));
                let wia = inverse_arr(&wa);
                if same_arr(&ra, &wa) || same_arr(&ra, &wia) {
                    is_one_of = true;
                }
                if oracle_cmp(&ra, &wa) == Ordering::Greater
                    || oracle_cmp(&ra, &wia) == Ordering::Greater
                {
                    le_all = false;
                }
            }
            k += 1;
        }
        assert!(is_one_of, "C10.relrep.is_a_rotation_or_inverse_rotation");
        assert!(le_all, "C10.relrep.least");
    }
    reach_end(reach);
    std::mem::forget((a, rep));
}

fn relrep_invariant_body<const L: usize>(reach: bool) {
    // identical for every rotation and for the inverse of a cyclically reduced word
    let a = FreeWord::new(sym_letters::<L>(2));
    let aa = to_arr::<L>(&a);
    assume(aa.n > 0);
    assume(aa.n == 1 || aa.v[0] != -aa.v[aa.n - 1]);
    let k: isize = vin();
    assume(0 <= k && k < L as isize);
    let rep = relator_representative(&a);
    let rot = a.rotated(k);
    let rep_rot = relator_representative(&rot);
    let inv = a.inverse();
    let rep_inv = relator_representative(&inv);
    let ra = to_arr::<L>(&rep);
    assert!(same_arr(&ra, &to_arr::<L>(&rep_rot)), "C10.relrep.rotation_invariant");
    assert!(same_arr(&ra, &to_arr::<L>(&rep_inv)), "C10.relrep.inverse_invariant");
    reach_end(reach);
    std::mem::forget((a, rep, rot, rep_rot, inv, rep_inv));
}

macro_rules! proofs {
    ($($name:ident => $call:expr;)*) => {$(
        #[cfg_attr(kani, kani::proof)]
        #[cfg_attr(verif_replay, test)]
        fn $name() { $call }
    )*};
}

// @harness c10_new_l3 tier=quick unwind=6 block=256 mem=6 timeout=1200
// @harness c10_new_l3_reach tier=quick unwind=6 block=256 mem=6 timeout=1200 twin
// @harness c10_new_l4 tier=thorough unwind=7 block=256 mem=8 timeout=1500 stretch
// @harness c10_mul_rr_2x2 tier=quick unwind=7 block=256 mem=10 timeout=1280
// @harness c10_mul_rr_2x2_reach tier=quick unwind=7 block=256 mem=6 timeout=1200 twin
// @harness c10_mul_rv_2x2 tier=quick unwind=7 block=256 mem=10 timeout=1200
// @harness c10_mul_vr_2x2 tier=quick unwind=7 block=256 mem=10 timeout=1200
// @harness c10_mul_vv_2x2 tier=quick unwind=7 block=256 mem=10 timeout=1200
// @harness c10_mul_rr_3x3 tier=thorough unwind=9 block=256 mem=26 timeout=3600 stretch
// @harness c10_mul_vv_3x2 tier=thorough unwind=8 block=256 mem=26 timeout=3600 stretch
// @harness c10_mulassign_2x2 tier=quick unwind=7 block=256 mem=10 timeout=1200
// @harness c10_mulassign_2x2_reach tier=quick unwind=7 block=256 mem=6 timeout=1200 twin
// @harness c10_mulassign_3x3 tier=thorough unwind=9 block=256 mem=26 timeout=3600 stretch
// @harness c10_mulgen_ref_l2 tier=quick unwind=6 block=256 mem=6 timeout=1200
// @harness c10_mulgen_val_l2 tier=quick unwind=6 block=256 mem=6 timeout=1200
// @harness c10_mulgen_val_l2_reach tier=quick unwind=6 block=256 mem=6 timeout=1200 twin
// @harness c10_mulgen_ref_l3 tier=thorough unwind=7 block=256 mem=16 timeout=1800 stretch
// @harness c10_inverse_l2 tier=quick unwind=7 block=256 mem=6 timeout=1200
// @harness c10_inverse_l2_reach tier=quick unwind=7 block=256 mem=6 timeout=1200 twin
// @harness c10_inverse_l3 tier=thorough unwind=9 block=256 mem=24 timeout=3000 stretch
// @harness c10_cancel_right_l2 tier=quick unwind=7 block=256 mem=10 timeout=1200
// @harness c10_cancel_left_l2 tier=quick unwind=7 block=256 mem=10 timeout=1200
// @harness c10_cancel_left_l2_reach tier=quick unwind=7 block=256 mem=6 timeout=1200 twin
// @harness c10_cancel_right_l3 tier=thorough unwind=9 block=256 mem=26 timeout=3600 stretch
// @harness c10_identity_left_l2 tier=quick unwind=7 block=256 mem=6 timeout=1200
// @harness c10_identity_right_l2 tier=quick unwind=7 block=256 mem=6 timeout=1200
// @harness c10_identity_right_l2_reach tier=quick unwind=7 block=256 mem=6 timeout=1200 twin
// @harness c10_antihom_1x1 tier=quick unwind=6 block=256 mem=9 timeout=1200
// @harness c10_antihom_2x1 tier=thorough unwind=7 block=256 mem=26 timeout=3600 stretch
// @harness c10_assoc_1x1x1 tier=thorough unwind=6 block=256 mem=36 timeout=3600 stretch
// @harness c10_assoc_1x1x1_reach tier=thorough unwind=6 block=256 mem=17 timeout=1200 twin
// @harness c10_assoc_2x1x1 tier=thorough unwind=7 block=256 mem=28 timeout=3600 stretch
// @harness c10_eq_l2 tier=quick unwind=18 block=256 mem=6 timeout=1200
// @harness c10_eq_l2_reach tier=quick unwind=18 block=256 mem=6 timeout=1200 twin
// @harness c10_eq_l3 tier=thorough unwind=26 block=256 mem=8 timeout=1800 stretch
// @harness c10_pow_l1_m2 tier=thorough unwind=6 block=256 mem=13 timeout=1200
// @harness c10_pow_l1_mneg2 tier=quick unwind=6 block=256 mem=13 timeout=1200
// @harness c10_pow_l1_mneg2_reach tier=quick unwind=6 block=256 mem=7 timeout=1200 twin
// @harness c10_pow_l2_m0 tier=quick unwind=6 block=256 mem=6 timeout=1200
// @harness c10_pow_l3_m0 tier=quick unwind=7 block=256 mem=6 timeout=1200
// @harness c10_pow_l3_m1 tier=quick unwind=7 block=256 mem=8 timeout=1200
// @harness c10_pow_l2_m1 tier=quick unwind=6 block=256 mem=6 timeout=1200
// @harness c10_pow_l2_mneg1 tier=quick unwind=6 block=256 mem=6 timeout=1200
// @harness c10_pow_l2_m2 tier=thorough unwind=8 block=256 mem=26 timeout=3600 stretch
// @harness c10_commutator_1x1 tier=thorough unwind=7 block=256 mem=29 timeout=3012
// @harness c10_commutator_1x1_reach tier=thorough unwind=7 block=256 mem=16 timeout=1200 twin
// @harness c10_rotated_l2 tier=quick unwind=8 block=256 mem=6 timeout=1200
// @harness c10_rotated_l2_reach tier=quick unwind=8 block=256 mem=6 timeout=1200 twin
// @harness c10_rotated_l5 tier=quick unwind=15 block=256 mem=6 timeout=1200
// @harness c10_rotated_l3 tier=thorough unwind=11 block=256 mem=8 timeout=1800 stretch
// @harness c10_order_l2 tier=quick unwind=5 block=256 mem=6 timeout=1200
// @harness c10_order_l2_reach tier=quick unwind=5 block=256 mem=6 timeout=1200 twin
// @harness c10_order_l3 tier=thorough unwind=6 block=256 mem=10 timeout=1800 stretch
// @harness c10_relrep_l1 tier=thorough unwind=6 block=256 mem=46 timeout=3600 stretch
// @harness c10_relrep_l1_reach tier=thorough unwind=6 block=256 mem=17 timeout=1200 twin
// @harness c10_relrep_l2 tier=thorough unwind=6 block=256 mem=48 timeout=3600 stretch
// @harness c10_relrep_l3 tier=thorough unwind=7 block=256 mem=48 timeout=3600 stretch
// @harness c10_relrep_inv_l2 tier=thorough unwind=6 block=256 mem=48 timeout=3600 stretch
proofs! {
    c10_new_l3 => new_body::<3>(false);
    c10_new_l3_reach => new_body::<3>(true);
    c10_new_l4 => new_body::<4>(false);
    c10_mul_rr_2x2 => mul_body::<2, 2, 4, 0>(false);
    c10_mul_rr_2x2_reach => mul_body::<2, 2, 4, 0>(true);
    c10_mul_rv_2x2 => mul_body::<2, 2, 4, 1>(false);
    c10_mul_vr_2x2 => mul_body::<2, 2, 4, 2>(false);
    c10_mul_vv_2x2 => mul_body::<2, 2, 4, 3>(false);
    c10_mul_rr_3x3 => mul_body::<3, 3, 6, 0>(false);
    c10_mul_vv_3x2 => mul_body::<3, 2, 5, 3>(false);
    c10_mulassign_2x2 => mulassign_body::<2, 2, 4>(false);
    c10_mulassign_2x2_reach => mulassign_body::<2, 2, 4>(true);
    c10_mulassign_3x3 => mulassign_body::<3, 3, 6>(false);
    c10_mulgen_ref_l2 => mulgen_body::<2, 3, false>(false);
    c10_mulgen_val_l2 => mulgen_body::<2, 3, true>(false);
    c10_mulgen_val_l2_reach => mulgen_body::<2, 3, true>(true);
    c10_mulgen_ref_l3 => mulgen_body::<3, 4, false>(false);
    c10_inverse_l2 => inverse_body::<2>(false);
    c10_inverse_l2_reach => inverse_body::<2>(true);
    c10_inverse_l3 => inverse_body::<3>(false);
    c10_cancel_right_l2 => cancel_body::<2, false>(false);
    c10_cancel_left_l2 => cancel_body::<2, true>(false);
    c10_cancel_left_l2_reach => cancel_body::<2, true>(true);
    c10_cancel_right_l3 => cancel_body::<3, false>(false);
    c10_identity_left_l2 => identity_body::<2, true>(false);
    c10_identity_right_l2 => identity_body::<2, false>(false);
    c10_identity_right_l2_reach => identity_body::<2, false>(true);
    c10_antihom_1x1 => antihom_body::<1, 1, 2>(false);
    c10_antihom_2x1 => antihom_body::<2, 1, 3>(false);
    c10_assoc_1x1x1 => assoc_body::<1, 1, 1, 3>(false);
    c10_assoc_1x1x1_reach => assoc_body::<1, 1, 1, 3>(true);
    c10_assoc_2x1x1 => assoc_body::<2, 1, 1, 4>(false);
    c10_eq_l2 => eq_body::<2>(false);
    c10_eq_l2_reach => eq_body::<2>(true);
    c10_eq_l3 => eq_body::<3>(false);
    c10_pow_l1_m2 => pow_body::<1, 2, 2>(false);
    c10_pow_l1_mneg2 => pow_body::<1, 2, -2>(false);
    c10_pow_l1_mneg2_reach => pow_body::<1, 2, -2>(true);
    c10_pow_l2_m0 => pow_body::<2, 4, 0>(false);
    c10_pow_l3_m0 => pow_body::<3, 6, 0>(false);
    c10_pow_l3_m1 => pow_body::<3, 6, 1>(false);
    c10_pow_l2_m1 => pow_body::<2, 4, 1>(false);
    c10_pow_l2_mneg1 => pow_body::<2, 4, -1>(false);
    c10_pow_l2_m2 => pow_body::<2, 4, 2>(false);
    c10_commutator_1x1 => commutator_body::<1, 1, 4>(false);
    c10_commutator_1x1_reach => commutator_body::<1, 1, 4>(true);
    c10_rotated_l2 => rotated_body::<2>(false);
    c10_rotated_l2_reach => rotated_body::<2>(true);
    c10_rotated_l5 => rotated_body::<5>(false);
    c10_rotated_l3 => rotated_body::<3>(false);
    c10_order_l2 => order_body::<2>(false);
    c10_order_l2_reach => order_body::<2>(true);
    c10_order_l3 => order_body::<3>(false);
    c10_relrep_l1 => relrep_body::<1>(false);
    c10_relrep_l1_reach => relrep_body::<1>(true);
    c10_relrep_l2 => relrep_body::<2>(false);
    c10_relrep_l3 => relrep_body::<3>(false);
    c10_relrep_inv_l2 => relrep_invariant_body::<2>(false);
}
