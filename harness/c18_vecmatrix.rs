//! @module src/geometry/vec_matrix.rs
//! @property C18
//! encodes: RowEchelonVecMatrix::new, VecMatrix::{rank, null_space, null_space_matrix, solve, determinant, inverse,
//!          transpose, identity, zero, submatrix, swap_rows, Mul, From<[[T; M]; N]>}, Entry::{pivot_row,
//!          clear_col, can_divide} for i64 (with traits::gcdx) and for PrimeResidueClass<7> — compiled from the
//!          current tree, heap-backed (Vec<T>) back end; same obligations as c18_matrix.rs.
//! clause:  "rank, determinant, null space, solve and inverse ... agree with exact arithmetic over the rationals
//!          (respectively the prime field) ... the null-space matrix has exactly columns-minus-rank independent
//!          columns annihilated by the matrix, solve returns a solution whenever the system is consistent over a
//!          field and only ever returns true solutions, and no shape makes these routines panic".
//! bound:   shapes R x C in the harness names (1x1 .. 2x2 quick; 1x3, 3x1, 2x3, 3x2, 3x3 thorough), entries
//!          |x| <= E over i64 (E in the harness name), ALL residues over Z/7; right-hand sides with one column.
//! oracle:  rank by minors (0 / 1 / 2 / 3), determinant by cofactor expansion, A*v products written out with
//!          indices in this file. Over Z/7 the oracle arithmetic uses the residue operations proved by
//!          c18_residue.rs.
//! not decided: BigRational and f64 back ends, >= 4x4 echelon determinant, entries near the i64 range.
//! stubs:   none.
#![allow(unused_imports, dead_code)]
use super::*;
use crate::geometry::prime_residue_classes::PrimeResidueClass;
use crate::verif_support::{assume, reach_end, vin};
use num_traits::{One, Zero};

type Z7 = PrimeResidueClass<7>;

trait Sym: Entry + Clone + Copy + PartialEq {
    fn sym(e: i64) -> Self;
    const FIELD: bool;
}

impl Sym for i64 {
    fn sym(e: i64) -> Self {
        let x: i64 = vin();
        assume(-e <= x && x <= e);
        x
    }
    const FIELD: bool = false;
}

impl Sym for Z7 {
    fn sym(_e: i64) -> Self {
        let x: i64 = vin();
        assume(0 <= x && x < 7);
        Z7::from(x)
    }
    const FIELD: bool = true;
}

fn sym_mat<T: Sym, const R: usize, const C: usize>(e: i64) -> [[T; C]; R] {
    let mut m = [[T::zero(); C]; R];
    let mut i = 0;
    while i < R {
        let mut j = 0;
        while j < C {
            m[i][j] = T::sym(e);
            j += 1;
        }
        i += 1;
    }
    m
}

fn det2<T: Sym>(a: T, b: T, c: T, d: T) -> T {
    a * d - b * c
}

fn det3<T: Sym>(m: &[[T; 3]; 3]) -> T {
    m[0][0] * det2(m[1][1], m[1][2], m[2][1], m[2][2])
        - m[0][1] * det2(m[1][0], m[1][2], m[2][0], m[2][2])
        + m[0][2] * det2(m[1][0], m[1][1], m[2][0], m[2][1])
}

/// oracle rank by minors, for R, C <= 3
fn orank<T: Sym, const R: usize, const C: usize>(m: &[[T; C]; R]) -> usize {
    let mut any1 = false;
    let mut any2 = false;
    let mut any3 = false;
    let mut i = 0;
    while i < R {
        let mut j = 0;
        while j < C {
            if !m[i][j].is_zero() {
                any1 = true;
            }
            let mut i2 = i + 1;
            while i2 < R {
                let mut j2 = j + 1;
                while j2 < C {
                    if !det2(m[i][j], m[i][j2], m[i2][j], m[i2][j2]).is_zero() {
                        any2 = true;
                    }
                    j2 += 1;
                }
                i2 += 1;
            }
            j += 1;
        }
        i += 1;
    }
    if R == 3 && C == 3 {
        let mut t = [[T::zero(); 3]; 3];
        let mut i = 0;
        while i < 3 {
            let mut j = 0;
            while j < 3 {
                t[i][j] = m[i][j];
                j += 1;
            }
            i += 1;
        }
        any3 = !det3(&t).is_zero();
    }
    if any3 { 3 } else if any2 { 2 } else if any1 { 1 } else { 0 }
}

fn rank_body<T: Sym, const R: usize, const C: usize>(e: i64, reach: bool)
    where for<'a> &'a T: ScalarPtr<T>
{
    let a = sym_mat::<T, R, C>(e);
    let m = VecMatrix::from(a);
    let r = m.rank();
    assert!(r == orank(&a), "C18.vec.rank");
    reach_end(reach);
    std::mem::forget(m);
}

fn nullspace_body<T: Sym, const R: usize, const C: usize>(e: i64, reach: bool)
    where for<'a> &'a T: ScalarPtr<T>
{
    let a = sym_mat::<T, R, C>(e);
    let m = VecMatrix::from(a);
    let ns = m.null_space();
    let rank = orank(&a);
    assert!(ns.len() == C - rank, "C18.vec.null_space.count");
    // copy the vectors out: column k of `v` is the k-th null vector
    let mut v = [[T::zero(); C]; C];
    let n = ns.len();
    let mut k = 0;
    while k < C {
        if k < n {
            let mut j = 0;
            while j < C {
                v[j][k] = ns[k][(j, 0)];
                j += 1;
            }
            // annihilated by the matrix
            let mut i = 0;
            while i < R {
                let mut s = T::zero();
                let mut j = 0;
                while j < C {
                    s = s + a[i][j] * v[j][k];
                    j += 1;
                }
                assert!(s.is_zero(), "C18.vec.null_space.annihilated");
                i += 1;
            }
        }
        k += 1;
    }
    // independent: the C x n matrix of null vectors has rank n (unused columns are zero)
    assert!(orank(&v) == n, "C18.vec.null_space.independent");
    // null_space_matrix holds the same vectors as columns
    let nm = m.null_space_matrix();
    assert!(nm.nr_rows() == C && nm.nr_columns() == n, "C18.vec.null_space_matrix.shape");
    let mut k = 0;
    while k < C {
        let mut j = 0;
        while j < C {
            if k < n {
                assert!(nm[(j, k)] == v[j][k], "C18.vec.null_space_matrix.columns");
            }
            j += 1;
        }
        k += 1;
    }
    std::mem::forget(nm);
    reach_end(reach);
    std::mem::forget(ns);
}

fn solve_body<T: Sym, const R: usize, const C: usize, const C1: usize>(e: i64, reach: bool)
    where for<'a> &'a T: ScalarPtr<T>, T: Div<T, Output = T>
{
    let a = sym_mat::<T, R, C>(e);
    let b = sym_mat::<T, R, 1>(e);
    let m = VecMatrix::from(a);
    let rhs = VecMatrix::from(b);
    match m.solve(&rhs) {
        Some(x) => {
            let mut i = 0;
            while i < R {
                let mut s = T::zero();
                let mut j = 0;
                while j < C {
                    s = s + a[i][j] * x[(j, 0)];
                    j += 1;
                }
                assert!(s == b[i][0], "C18.vec.solve.is_solution");
                i += 1;
            }
        }
        None => {
            if T::FIELD {
                // over a field None is only allowed for an inconsistent system:
                // rank [A | b] > rank A
                let mut ab = [[T::zero(); C1]; R];
                let mut i = 0;
                while i < R {
                    let mut j = 0;
                    while j < C {
                        ab[i][j] = a[i][j];
                        j += 1;
                    }
                    ab[i][C] = b[i][0];
                    i += 1;
                }
                assert!(orank(&ab) > orank(&a), "C18.vec.solve.none_only_if_inconsistent");
            }
        }
    }
    reach_end(reach);
}

fn det_inverse_body<T: Sym, const N: usize>(e: i64, reach: bool)
    where for<'a> &'a T: ScalarPtr<T>, T: Div<T, Output = T>
{
    let a = sym_mat::<T, N, N>(e);
    let m = VecMatrix::from(a);
    let d = m.determinant();
    let want = if N == 1 {
        a[0][0]
    } else if N == 2 {
        det2(a[0][0], a[0][1], a[1][0], a[1][1])
    } else {
        let mut t = [[T::zero(); 3]; 3];
        let mut i = 0;
        while i < 3 {
            let mut j = 0;
            while j < 3 {
                t[i][j] = a[i][j];
                j += 1;
            }
            i += 1;
        }
        det3(&t)
    };
    assert!(d == want, "C18.vec.determinant");
    assert!((orank(&a) == N) == !d.is_zero(), "C18.vec.determinant_vs_rank");
    if N <= 2 {
        match m.inverse() {
            Some(inv) => {
                let mut i = 0;
                while i < N {
                    let mut j = 0;
                    while j < N {
                        let mut s = T::zero();
                        let mut k = 0;
                        while k < N {
                            s = s + a[i][k] * inv[(k, j)];
                            k += 1;
                        }
                        let id = if i == j { T::one() } else { T::zero() };
                        assert!(s == id, "C18.vec.inverse.is_inverse");
                        j += 1;
                    }
                    i += 1;
                }
            }
            None => {
                if T::FIELD {
                    assert!(d.is_zero(), "C18.vec.inverse.none_only_if_singular");
                }
            }
        }
    }
    reach_end(reach);
}

/// The >= 4x4 arm of `determinant()` (product of the echelon diagonal, sign by the number of row swaps) relies on
/// a contract of RowEchelonVecMatrix::new / Entry::{pivot_row, clear_col}: the echelon form is reached by
/// operations of determinant +1 apart from the counted swaps. The 4x4 shapes themselves are out of reach, so the
/// contract is decided on 2x2 / 3x3 input with the arm's four lines reproduced here and compared with the
/// cofactor expansion.
fn echelon_det_body<const N: usize>(e: i64, reach: bool) {
    let a = sym_mat::<i64, N, N>(e);
    let m = VecMatrix::from(a);
    let re = RowEchelonVecMatrix::new(&m);
    let mut prod: i64 = 1;
    let mut i = 0;
    while i < N {
        prod = prod * re.result[i][i];
        i += 1;
    }
    let det = if re.nr_swaps % 2 == 0 { prod } else { -prod };
    let want = if N == 1 {
        a[0][0]
    } else if N == 2 {
        a[0][0] * a[1][1] - a[0][1] * a[1][0]
    } else {
        a[0][0] * (a[1][1] * a[2 % N][2 % N] - a[1][2 % N] * a[2 % N][1])
            - a[0][1] * (a[1][0] * a[2 % N][2 % N] - a[1][2 % N] * a[2 % N][0])
            + a[0][2 % N] * (a[1][0] * a[2 % N][1] - a[1][1] * a[2 % N][0])
    };
    assert!(det == want, "C18.vec.echelon_determinant_contract");
    reach_end(reach);
    std::mem::forget((m, re));
}

macro_rules! proofs {
    ($($name:ident => $call:expr;)*) => {$(
        #[cfg_attr(kani, kani::proof)]
        #[cfg_attr(verif_replay, test)]
        fn $name() { $call }
    )*};
}

// ---- i64 / Z7 registry (generated from measurements, see DESIGN.md section 3.4) ----
// @harness c18_vec_i64_rank_1x1_e3 tier=quick unwind=6 block=128 mem=6 timeout=1200
// @harness c18_vec_i64_rank_1x2_e3 tier=quick unwind=6 block=128 mem=12 timeout=1200
// @harness c18_vec_i64_rank_2x1_e3 tier=quick unwind=6 block=128 mem=6 timeout=1200
// @harness c18_vec_i64_rank_2x2_e2 tier=thorough unwind=6 block=128 mem=16 timeout=3600
// @harness c18_vec_i64_rank_2x2_e2_reach tier=thorough unwind=6 block=128 mem=16 timeout=3600 twin
// @harness c18_vec_i64_rank_1x3_e3 tier=thorough unwind=6 block=128 mem=40 timeout=3600 stretch
// @harness c18_vec_i64_rank_3x1_e3 tier=thorough unwind=6 block=128 mem=40 timeout=3600 stretch
// @harness c18_vec_i64_rank_2x3_e2 tier=thorough unwind=6 block=128 mem=40 timeout=3600 stretch
// @harness c18_vec_i64_rank_3x2_e2 tier=thorough unwind=6 block=128 mem=40 timeout=3600 stretch
// @harness c18_vec_i64_null_1x2_e3 tier=quick unwind=6 block=128 mem=8 timeout=2284
// @harness c18_vec_i64_null_2x1_e3 tier=thorough unwind=6 block=128 mem=27 timeout=2835
// @harness c18_vec_i64_null_2x2_e2 tier=thorough unwind=6 block=128 mem=40 timeout=3600 stretch
// @harness c18_vec_i64_null_2x2_e2_reach tier=thorough unwind=6 block=128 mem=40 timeout=3600 twin stretch
// @harness c18_vec_i64_null_2x3_e2 tier=thorough unwind=6 block=128 mem=40 timeout=3600 stretch
// @harness c18_vec_i64_null_3x2_e2 tier=thorough unwind=6 block=128 mem=40 timeout=3600 stretch
// @harness c18_vec_i64_solve_1x2_e3 tier=thorough unwind=6 block=128 mem=21 timeout=2829
// @harness c18_vec_i64_solve_2x1_e3 tier=thorough unwind=6 block=128 mem=12 timeout=3182
// @harness c18_vec_i64_solve_2x1_e2 tier=quick unwind=6 block=128 mem=10 timeout=1800
// @harness c18_vec_i64_solve_2x2_e2 tier=thorough unwind=6 block=128 mem=26 timeout=3600
// @harness c18_vec_i64_solve_2x2_e2_reach tier=thorough unwind=6 block=128 mem=40 timeout=3600 twin stretch
// @harness c18_vec_i64_detinv_1_e3 tier=thorough unwind=6 block=128 mem=11 timeout=1216
// @harness c18_vec_i64_detinv_2_e2 tier=thorough unwind=6 block=128 mem=40 timeout=3600 stretch
// @harness c18_vec_i64_detinv_2_e2_reach tier=thorough unwind=6 block=128 mem=40 timeout=3600 twin stretch
// @harness c18_vec_i64_det_3_e3 tier=thorough unwind=6 block=128 mem=40 timeout=3600 stretch
// @harness c18_vec_z7_rank_1x2 tier=thorough unwind=8 block=128 mem=10 timeout=1200
// @harness c18_vec_z7_rank_2x1 tier=quick unwind=8 block=128 mem=6 timeout=1200
// @harness c18_vec_z7_rank_2x2 tier=thorough unwind=8 block=128 mem=13 timeout=1200
// @harness c18_vec_z7_rank_2x2_reach tier=thorough unwind=8 block=128 mem=13 timeout=2337 twin
// @harness c18_vec_z7_null_1x2 tier=thorough unwind=8 block=128 mem=10 timeout=2372
// @harness c18_vec_z7_null_2x2 tier=thorough unwind=8 block=128 mem=40 timeout=3600 stretch
// @harness c18_vec_z7_solve_1x2 tier=thorough unwind=8 block=128 mem=40 timeout=3600 stretch
// @harness c18_vec_z7_solve_2x1 tier=thorough unwind=8 block=128 mem=32 timeout=3600
// @harness c18_vec_z7_solve_2x2 tier=thorough unwind=8 block=128 mem=40 timeout=3600 stretch
// @harness c18_vec_z7_solve_2x2_reach tier=thorough unwind=8 block=128 mem=40 timeout=3600 twin stretch
// @harness c18_vec_z7_detinv_2 tier=thorough unwind=8 block=128 mem=40 timeout=3600 stretch
// @harness c18_vec_i64_rank_2x1_e3_reach tier=quick unwind=6 block=128 mem=6 timeout=1200 twin
// @harness c18_vec_i64_null_1x2_e3_reach tier=quick unwind=6 block=128 mem=8 timeout=1200 twin
// @harness c18_vec_i64_solve_2x1_e3_reach tier=thorough unwind=6 block=128 mem=11 timeout=1309 twin
// @harness c18_vec_i64_solve_2x1_e2_reach tier=quick unwind=6 block=128 mem=10 timeout=1309 twin
// @harness c18_vec_i64_detinv_1_e3_reach tier=thorough unwind=6 block=128 mem=6 timeout=1200 twin
// @harness c18_vec_z7_rank_2x1_reach tier=quick unwind=8 block=128 mem=6 timeout=1200 twin
// @harness c18_vec_i64_echdet_2_e1 tier=thorough unwind=6 block=128 mem=16 timeout=1800
// @harness c18_vec_i64_echdet_2_e2 tier=thorough unwind=6 block=128 mem=40 timeout=3600 stretch
proofs! {
    c18_vec_i64_echdet_2_e1 => echelon_det_body::<2>(1, false);
    c18_vec_i64_echdet_2_e2 => echelon_det_body::<2>(2, false);
    c18_vec_i64_rank_2x1_e3_reach => rank_body::<i64, 2, 1>(3, true);
    c18_vec_i64_null_1x2_e3_reach => nullspace_body::<i64, 1, 2>(3, true);
    c18_vec_i64_solve_2x1_e3_reach => solve_body::<i64, 2, 1, 2>(3, true);
    c18_vec_i64_detinv_1_e3_reach => det_inverse_body::<i64, 1>(3, true);
    c18_vec_z7_rank_2x1_reach => rank_body::<Z7, 2, 1>(0, true);
    c18_vec_i64_rank_1x1_e3 => rank_body::<i64, 1, 1>(3, false);
    c18_vec_i64_rank_1x2_e3 => rank_body::<i64, 1, 2>(3, false);
    c18_vec_i64_rank_2x1_e3 => rank_body::<i64, 2, 1>(3, false);
    c18_vec_i64_rank_2x2_e2 => rank_body::<i64, 2, 2>(2, false);
    c18_vec_i64_rank_2x2_e2_reach => rank_body::<i64, 2, 2>(2, true);
    c18_vec_i64_rank_1x3_e3 => rank_body::<i64, 1, 3>(3, false);
    c18_vec_i64_rank_3x1_e3 => rank_body::<i64, 3, 1>(3, false);
    c18_vec_i64_rank_2x3_e2 => rank_body::<i64, 2, 3>(2, false);
    c18_vec_i64_rank_3x2_e2 => rank_body::<i64, 3, 2>(2, false);
    c18_vec_i64_null_1x2_e3 => nullspace_body::<i64, 1, 2>(3, false);
    c18_vec_i64_null_2x1_e3 => nullspace_body::<i64, 2, 1>(3, false);
    c18_vec_i64_null_2x2_e2 => nullspace_body::<i64, 2, 2>(2, false);
    c18_vec_i64_null_2x2_e2_reach => nullspace_body::<i64, 2, 2>(2, true);
    c18_vec_i64_null_2x3_e2 => nullspace_body::<i64, 2, 3>(2, false);
    c18_vec_i64_null_3x2_e2 => nullspace_body::<i64, 3, 2>(2, false);
    c18_vec_i64_solve_1x2_e3 => solve_body::<i64, 1, 2, 3>(3, false);
    c18_vec_i64_solve_2x1_e3 => solve_body::<i64, 2, 1, 2>(3, false);
    c18_vec_i64_solve_2x1_e2 => solve_body::<i64, 2, 1, 2>(2, false);
    c18_vec_i64_solve_2x1_e2_reach => solve_body::<i64, 2, 1, 2>(2, true);
    c18_vec_i64_solve_2x2_e2 => solve_body::<i64, 2, 2, 3>(2, false);
    c18_vec_i64_solve_2x2_e2_reach => solve_body::<i64, 2, 2, 3>(2, true);
    c18_vec_i64_detinv_1_e3 => det_inverse_body::<i64, 1>(3, false);
    c18_vec_i64_detinv_2_e2 => det_inverse_body::<i64, 2>(2, false);
    c18_vec_i64_detinv_2_e2_reach => det_inverse_body::<i64, 2>(2, true);
    c18_vec_i64_det_3_e3 => det_inverse_body::<i64, 3>(3, false);
    c18_vec_z7_rank_1x2 => rank_body::<Z7, 1, 2>(0, false);
    c18_vec_z7_rank_2x1 => rank_body::<Z7, 2, 1>(0, false);
    c18_vec_z7_rank_2x2 => rank_body::<Z7, 2, 2>(0, false);
    c18_vec_z7_rank_2x2_reach => rank_body::<Z7, 2, 2>(0, true);
    c18_vec_z7_null_1x2 => nullspace_body::<Z7, 1, 2>(0, false);
    c18_vec_z7_null_2x2 => nullspace_body::<Z7, 2, 2>(0, false);
    c18_vec_z7_solve_1x2 => solve_body::<Z7, 1, 2, 3>(0, false);
    c18_vec_z7_solve_2x1 => solve_body::<Z7, 2, 1, 2>(0, false);
    c18_vec_z7_solve_2x2 => solve_body::<Z7, 2, 2, 3>(0, false);
    c18_vec_z7_solve_2x2_reach => solve_body::<Z7, 2, 2, 3>(0, true);
    c18_vec_z7_detinv_2 => det_inverse_body::<Z7, 2>(0, false);
}
