//! @module src/fpgroups/invariants.rs
//! @property C14
//! encodes: gcdx, find_pivot, move_pivot_in_place, clear_later_rows_in_place, clear_later_cols_in_place,
//!          diagonalize_in_place, relator_as_vector::<isize>, abelian_invariants (+ FreeWord::new/iter for the
//!          relators) — compiled from the current tree.
//! clause:  "the returned list is the ascending list of invariant factors different from 1 of Z^n modulo the
//!          exponent-sum vectors of the relators, with one 0 for each free generator"; invariance under
//!          inverting / rotating / conjugating relators and under products is decided on `relator_as_vector`
//!          (the only place relator spelling enters) plus the closed-form oracle on the matrix.
//! bound:   gcdx: |a|,|b| <= A (A in the harness name). diagonalize_in_place: shapes RxC with entries
//!          |x| <= E. abelian_invariants: n generators, R relators given as FreeWords of raw length L over
//!          letters -n..=n (so exponent sums |x| <= L), shapes in the harness names.
//! oracle:  for min(R, n) <= 2 the invariant factors have the closed form d1 = gcd(all entries),
//!          d1*d2 = gcd(all 2x2 minors); free rank = n - rank; computed on fixed arrays with a
//!          fixed-trip Euclid loop in this file.
//! assumes: every relator letter g satisfies 1 <= |g| <= n (documented precondition: generators are 1..=n).
//! not decided: matrices with min(R, n) >= 3, entries beyond the bounds (in particular isize overflow in the
//!          unimodular steps for huge exponent sums).
//! stubs:   std `<[usize]>::sort` -> insertion sort (Kani only; see stub_sort). No crate function is stubbed.
#![allow(unused_imports, dead_code)]
use super::*;
use crate::verif_support::{assume, reach_end, vin};

fn iabs(x: isize) -> isize {
    if x < 0 { -x } else { x }
}

/// oracle gcd (non-negative), fixed trip count K
fn ogcd<const K: usize>(a: isize, b: isize) -> isize {
    let (mut a, mut b) = (iabs(a), iabs(b));
    let mut k = 0;
    while k < K {
        if b != 0 {
            let t = a % b;
            a = b;
            b = t;
        }
        k += 1;
    }
    assert!(b == 0, "C14.harness.oracle_gcd_trip_count");
    a
}

// ------------------------------------------------------------------ gcdx

fn gcdx_body<const A: isize, const K: usize>(reach: bool) {
    let a: isize = vin();
    let b: isize = vin();
    assume(-A <= a && a <= A && -A <= b && b <= A);
    let (g, r, s, t, u) = gcdx(a, b);
    assert!(a * r + b * s == g, "C14.gcdx.bezout");
    assert!(a * t + b * u == 0, "C14.gcdx.kernel_row");
    let det = r * u - s * t;
    assert!(det == 1 || det == -1, "C14.gcdx.unimodular");
    assert!(iabs(g) == ogcd::<K>(a, b), "C14.gcdx.is_gcd");
    if a >= 0 && b >= 0 {
        assert!(g >= 0, "C14.gcdx.nonnegative_on_nonnegative");
    }
    reach_end(reach);
}

// ------------------------------------------------------------------ diagonalize_in_place

fn sym_matrix<const R: usize, const C: usize>(e: isize) -> [[isize; C]; R] {
    let mut m = [[0isize; C]; R];
    let mut i = 0;
    while i < R {
        let mut j = 0;
        while j < C {
            let x: isize = vin();
            assume(-e <= x && x <= e);
            m[i][j] = x;
            j += 1;
        }
        i += 1;
    }
    m
}

fn to_vecs<const R: usize, const C: usize>(m: &[[isize; C]; R]) -> Vec<Vec<isize>> {
    let mut out = Vec::with_capacity(R);
    let mut i = 0;
    while i < R {
        let mut row = Vec::with_capacity(C);
        let mut j = 0;
        while j < C {
            row.push(m[i][j]);
            j += 1;
        }
        out.push(row);
        i += 1;
    }
    out
}

fn gcd_all<const R: usize, const C: usize, const K: usize>(m: &[[isize; C]; R]) -> isize {
    let mut g = 0;
    let mut i = 0;
    while i < R {
        let mut j = 0;
        while j < C {
            g = ogcd::<K>(g, m[i][j]);
            j += 1;
        }
        i += 1;
    }
    g
}

/// gcd of all 2x2 minors (0 if there is none)
fn gcd_minors<const R: usize, const C: usize, const K: usize>(m: &[[isize; C]; R]) -> isize {
    let mut g = 0;
    let mut i = 0;
    while i < R {
        let mut i2 = i + 1;
        while i2 < R {
            let mut j = 0;
            while j < C {
                let mut j2 = j + 1;
                while j2 < C {
                    let d = m[i][j] * m[i2][j2] - m[i][j2] * m[i2][j];
                    g = ogcd::<K>(g, d);
                    j2 += 1;
                }
                j += 1;
            }
            i2 += 1;
        }
        i += 1;
    }
    g
}

fn diag_body<const R: usize, const C: usize, const E: isize, const K: usize>(reach: bool) {
    diag_body_ut::<R, C, E, K, false>(reach)
}

/// UT = true: upper-triangular input (entries below the diagonal are the constant 0), which keeps the
/// first row-clearing pass trivial and lets larger entries through (seeded change C14-mut2 needs |x| <= 6)
fn diag_body_ut<const R: usize, const C: usize, const E: isize, const K: usize, const UT: bool>(reach: bool) {
    let mut m = sym_matrix::<R, C>(E);
    if UT {
        let mut i = 0;
        while i < R {
            let mut j = 0;
            while j < C {
                if j < i {
                    m[i][j] = 0;
                }
                j += 1;
            }
            i += 1;
        }
    }
    let mut v = to_vecs(&m);
    diagonalize_in_place(&mut v);
    assert!(v.len() == R, "C14.diag.rows_kept");
    let mut d = [[0isize; C]; R];
    let mut i = 0;
    while i < R {
        assert!(v[i].len() == C, "C14.diag.cols_kept");
        let mut j = 0;
        while j < C {
            d[i][j] = v[i][j];
            if i != j {
                assert!(d[i][j] == 0, "C14.diag.off_diagonal_zero");
            } else {
                assert!(d[i][j] >= 0, "C14.diag.diagonal_nonnegative");
            }
            j += 1;
        }
        i += 1;
    }
    // unimodular row/column operations preserve the determinantal divisors
    assert!(gcd_all::<R, C, K>(&d) == gcd_all::<R, C, K>(&m), "C14.diag.gcd_of_entries_preserved");
    if R >= 2 && C >= 2 {
        assert!(gcd_minors::<R, C, K>(&d) == gcd_minors::<R, C, K>(&m),
                "C14.diag.gcd_of_minors_preserved");
    }
    reach_end(reach);
    std::mem::forget(v);
}

// ------------------------------------------------------------------ relator_as_vector

fn sym_word<const L: usize>(n: isize) -> FreeWord {
    let mut a = [0isize; L];
    let mut i = 0;
    while i < L {
        let x: isize = vin();
        assume(-n <= x && x <= n);
        a[i] = x;
        i += 1;
    }
    FreeWord::new(a)
}

fn vec_of<const N: usize>(w: &FreeWord) -> [isize; N] {
    let v: Vec<isize> = relator_as_vector(N, w);
    assert!(v.len() == N, "C14.relvec.length");
    let mut a = [0isize; N];
    let mut i = 0;
    while i < N {
        a[i] = v[i];
        i += 1;
    }
    std::mem::forget(v);
    a
}

fn relvec_body<const N: usize, const L: usize, const PART: u8>(reach: bool) {
    let w = sym_word::<L>(N as isize);
    let v = vec_of::<N>(&w);
    if PART == 0 {
        // exponent sums, computed letter by letter through the public API
        let mut want = [0isize; N];
        let mut k = 0;
        while k < L {
            if k < w.len() {
                let g = w[k];
                if g > 0 {
                    want[(g - 1) as usize] += 1;
                } else {
                    want[(-g - 1) as usize] -= 1;
                }
            }
            k += 1;
        }
        let mut i = 0;
        while i < N {
            assert!(v[i] == want[i], "C14.relvec.exponent_sums");
            i += 1;
        }
    } else if PART == 1 {
        let inv = vec_of::<N>(&w.inverse());
        let mut i = 0;
        while i < N {
            assert!(inv[i] == -v[i], "C14.relvec.inverse_negates");
            i += 1;
        }
    } else if PART == 2 {
        let g: isize = vin();
        assume(1 <= g && g <= N as isize);
        let conj = vec_of::<N>(&(&(&FreeWord::new([g]) * &w) * &FreeWord::new([-g])));
        let mut i = 0;
        while i < N {
            assert!(conj[i] == v[i], "C14.relvec.conjugation_invariant");
            i += 1;
        }
    } else if PART == 3 {
        let u = sym_word::<L>(N as isize);
        let uv = vec_of::<N>(&u);
        let prod = vec_of::<N>(&(&w * &u));
        let mut i = 0;
        while i < N {
            assert!(prod[i] == v[i] + uv[i], "C14.relvec.product_adds");
            i += 1;
        }
        std::mem::forget(u);
    } else if w.len() > 0 {
        let r: isize = vin();
        assume(0 <= r && r < L as isize);
        let rot = vec_of::<N>(&w.rotated(r));
        let mut i = 0;
        while i < N {
            assert!(rot[i] == v[i], "C14.relvec.rotation_invariant");
            i += 1;
        }
    }
    reach_end(reach);
    std::mem::forget(w);
}

// ------------------------------------------------------------------ abelian_invariants end to end

/// expected result for an R x N exponent-sum matrix with min(R, N) <= 2
fn oracle_invariants<const R: usize, const N: usize, const K: usize>(m: &[[isize; N]; R])
    -> ([usize; N], usize)
{
    let d1 = gcd_all::<R, N, K>(m);
    let dd = if R >= 2 && N >= 2 { gcd_minors::<R, N, K>(m) } else { 0 };
    let rank = if d1 == 0 { 0 } else if dd == 0 { 1 } else { 2 };
    let mut out = [0usize; N];
    let mut n = 0;
    // zeros first (ascending order): one per free generator
    let mut z = 0;
    while z < N - rank {
        out[n] = 0;
        n += 1;
        z += 1;
    }
    let f1 = d1;
    let f2 = if rank == 2 { dd / d1 } else { 1 };
    if rank >= 1 && f1 != 1 {
        out[n] = f1 as usize;
        n += 1;
    }
    if rank == 2 && f2 != 1 {
        out[n] = f2 as usize;
        n += 1;
    }
    (out, n)
}

fn abinv_body<const R: usize, const N: usize, const L: usize, const K: usize>(reach: bool) {
    // relators: FreeWords over generators 1..=N with raw length L
    let mut rels: Vec<FreeWord> = Vec::with_capacity(R);
    let mut m = [[0isize; N]; R];
    let mut i = 0;
    while i < R {
        let w = sym_word::<L>(N as isize);
        let mut k = 0;
        while k < L {
            if k < w.len() {
                let g = w[k];
                if g > 0 {
                    m[i][(g - 1) as usize] += 1;
                } else {
                    m[i][(-g - 1) as usize] -= 1;
                }
            }
            k += 1;
        }
        rels.push(w);
        i += 1;
    }
    let got = abelian_invariants(N, rels.iter());
    let (want, n) = oracle_invariants::<R, N, K>(&m);
    assert!(got.len() == n, "C14.abinv.length");
    let mut i = 0;
    while i < N {
        if i < n {
            assert!(got[i] == want[i], "C14.abinv.value");
        }
        i += 1;
    }
    reach_end(reach);
    std::mem::forget((rels, got));
}

/// diagonal 3x3 input: relators g_i^(s_i * e_i); exercises the divisibility-chain fix-up
fn abinv_diag3_body<const E: usize, const K: usize>(reach: bool) {
    let mut rels: Vec<FreeWord> = Vec::with_capacity(3);
    let mut ex = [0isize; 3];
    let mut i = 0;
    while i < 3 {
        let e: usize = vin();
        let neg: bool = vin();
        assume(e <= E);
        let g = if neg { -(i as isize + 1) } else { i as isize + 1 };
        let mut letters = [0isize; E];
        let mut k = 0;
        while k < E {
            if k < e {
                letters[k] = g;
            }
            k += 1;
        }
        rels.push(FreeWord::new(letters));
        ex[i] = e as isize;
        i += 1;
    }
    let got = abelian_invariants(3, rels.iter());
    // oracle for a diagonal matrix diag(e1, e2, e3)
    let (a, b, c) = (ex[0], ex[1], ex[2]);
    let rank = (a != 0) as usize + (b != 0) as usize + (c != 0) as usize;
    let d1 = ogcd::<K>(ogcd::<K>(a, b), c);
    let d2 = ogcd::<K>(ogcd::<K>(a * b, a * c), b * c);
    let d3 = a * b * c;
    let f1 = d1;
    let f2 = if rank >= 2 { d2 / d1 } else { 1 };
    let f3 = if rank == 3 { d3 / d2 } else { 1 };
    let mut want = [0usize; 3];
    let mut n = 3 - rank;
    if rank >= 1 && f1 != 1 {
        want[n] = f1 as usize;
        n += 1;
    }
    if rank >= 2 && f2 != 1 {
        want[n] = f2 as usize;
        n += 1;
    }
    if rank == 3 && f3 != 1 {
        want[n] = f3 as usize;
        n += 1;
    }
    assert!(got.len() == n, "C14.abinv.diag3.length");
    let mut i = 0;
    while i < 3 {
        if i < n {
            assert!(got[i] == want[i], "C14.abinv.diag3.value");
        }
        i += 1;
    }
    reach_end(reach);
    std::mem::forget((rels, got));
}

/// the degenerate shapes: no generators, no relators
fn abinv_degenerate_body(reach: bool) {
    let none: Vec<FreeWord> = Vec::new();
    let r0 = abelian_invariants(0, none.iter());
    assert!(r0.len() == 0, "C14.abinv.no_generators");
    let n: usize = vin();
    assume(n <= 3);
    let r1 = abelian_invariants(n, none.iter());
    assert!(r1.len() == n, "C14.abinv.free_group_length");
    let mut i = 0;
    while i < 3 {
        if i < n {
            assert!(r1[i] == 0, "C14.abinv.free_group_zeros");
        }
        i += 1;
    }
    reach_end(reach);
    std::mem::forget((none, r0, r1));
}

/// functional model of `<[usize]>::sort` (insertion sort). std's driftsort does not leave symbolic
/// execution when the slice LENGTH is symbolic (all size classes are explored); std is trusted, and for
/// integer keys any correct sort is observationally the same.
#[cfg(kani)]
fn stub_sort<T: Ord>(s: &mut [T]) {
    let n = s.len();
    let mut i = 1;
    while i < n {
        let mut j = i;
        while j > 0 && s[j - 1] > s[j] {
            s.swap(j - 1, j);
            j -= 1;
        }
        i += 1;
    }
}

macro_rules! proofs {
    ($($name:ident => $call:expr;)*) => {$(
        #[cfg_attr(kani, kani::proof)]
        #[cfg_attr(kani, kani::stub(<[usize]>::sort, stub_sort))]
        #[cfg_attr(verif_replay, test)]
        fn $name() { $call }
    )*};
}

// @harness c14_gcdx_a12 tier=quick unwind=8 block=64 mem=6 timeout=1200
// @harness c14_gcdx_a12_reach tier=quick unwind=8 block=64 mem=6 timeout=1200 twin
// @harness c14_gcdx_a40 tier=thorough unwind=11 block=64 mem=8 timeout=3000 stretch
// @harness c14_diag_1x2_e3 tier=quick unwind=6 block=64 mem=8 timeout=1200
// @harness c14_diag_2x1_e3 tier=quick unwind=6 block=64 mem=6 timeout=1200
// @harness c14_diag_3x1_e3 tier=thorough unwind=7 block=128 small=64 mem=40 timeout=3600 stretch
// @harness c14_diag_2x2_e1 tier=quick unwind=6 block=64 mem=20 timeout=1500
// @harness c14_diag_2x2_e1_reach tier=quick unwind=6 block=64 mem=12 timeout=1500 twin
// @harness c14_diag_2x2_e2 tier=thorough unwind=7 block=64 mem=24 timeout=3600
// @harness c14_diag_2x2_e2_reach tier=thorough unwind=7 block=64 mem=17 timeout=1200 twin
// @harness c14_diag_2x2_e3 tier=thorough unwind=8 block=64 mem=44 timeout=3600 stretch
// @harness c14_diag_2x2_ut_e6 tier=thorough unwind=11 block=64 mem=46 timeout=3600 stretch
// @harness c14_diag_2x2_e6 tier=thorough unwind=11 block=64 mem=48 timeout=3600 stretch
// @harness c14_abinv_diag3_e3 tier=thorough unwind=9 block=256 small=64 mem=48 timeout=3600 stretch
// @harness c14_abinv_diag3_e5 tier=thorough unwind=13 block=256 small=64 mem=48 timeout=3600 stretch
// @harness c14_diag_2x3_e2 tier=thorough unwind=8 block=64 mem=44 timeout=3600 stretch
// @harness c14_diag_3x2_e2 tier=thorough unwind=8 block=64 mem=44 timeout=3600 stretch
// @harness c14_relvec_sums_n2_l3 tier=quick unwind=7 block=256 mem=6 timeout=1200
// @harness c14_relvec_sums_n2_l3_reach tier=quick unwind=7 block=256 mem=6 timeout=1200 twin
// @harness c14_relvec_inverse_n2_l2 tier=quick unwind=7 block=256 mem=6 timeout=1200
// @harness c14_relvec_conj_n2_l2 tier=thorough unwind=7 block=256 small=64 mem=20 timeout=3380
// @harness c14_relvec_product_n2_l2 tier=quick unwind=7 block=256 small=64 mem=11 timeout=2098
// @harness c14_relvec_rotation_n2_l2 tier=quick unwind=7 block=256 mem=6 timeout=1200
// @harness c14_relvec_rotation_n2_l2_reach tier=quick unwind=7 block=256 mem=6 timeout=1200 twin
// @harness c14_relvec_conj_n2_l3 tier=thorough unwind=9 block=256 small=64 mem=40 timeout=3600 stretch
// @harness c14_relvec_product_n3_l3 tier=thorough unwind=9 block=256 small=64 mem=40 timeout=3600 stretch
// @harness c14_abinv_degenerate tier=quick unwind=6 block=64 mem=6 timeout=1200
// @harness c14_abinv_degenerate_reach tier=quick unwind=6 block=64 mem=6 timeout=1200 twin
// @harness c14_abinv_r1_n1_l3 tier=quick unwind=5 block=256 small=64 mem=6 timeout=1200
// @harness c14_abinv_r1_n2_l2 tier=quick unwind=5 block=256 small=64 mem=10 timeout=1952
// @harness c14_abinv_r1_n1_l3_reach tier=quick unwind=5 block=256 small=64 mem=6 timeout=1200 twin
// @harness c14_abinv_r1_n2_l2_reach tier=thorough unwind=5 block=256 small=64 mem=9 timeout=2921 twin
// @harness c14_abinv_r2_n1_l2 tier=thorough unwind=7 block=256 small=64 mem=30 timeout=3600 stretch
// @harness c14_abinv_r2_n2_l2 tier=thorough unwind=8 block=256 small=64 mem=44 timeout=3600 stretch
proofs! {
    c14_gcdx_a12 => gcdx_body::<12, 6>(false);
    c14_gcdx_a12_reach => gcdx_body::<12, 6>(true);
    c14_gcdx_a40 => gcdx_body::<40, 9>(false);
    c14_diag_1x2_e3 => diag_body::<1, 2, 3, 4>(false);
    c14_diag_2x1_e3 => diag_body::<2, 1, 3, 4>(false);
    c14_diag_3x1_e3 => diag_body::<3, 1, 3, 4>(false);
    c14_diag_2x2_e1 => diag_body::<2, 2, 1, 3>(false);
    c14_diag_2x2_e1_reach => diag_body::<2, 2, 1, 3>(true);
    c14_diag_2x2_e2 => diag_body::<2, 2, 2, 5>(false);
    c14_diag_2x2_e2_reach => diag_body::<2, 2, 2, 5>(true);
    c14_diag_2x2_e3 => diag_body::<2, 2, 3, 6>(false);
    c14_diag_2x2_ut_e6 => diag_body_ut::<2, 2, 6, 9, true>(false);
    c14_diag_2x2_e6 => diag_body::<2, 2, 6, 9>(false);
    c14_abinv_diag3_e3 => abinv_diag3_body::<3, 7>(false);
    c14_abinv_diag3_e5 => abinv_diag3_body::<5, 11>(false);
    c14_diag_2x3_e2 => diag_body::<2, 3, 2, 5>(false);
    c14_diag_3x2_e2 => diag_body::<3, 2, 2, 5>(false);
    c14_relvec_sums_n2_l3 => relvec_body::<2, 3, 0>(false);
    c14_relvec_sums_n2_l3_reach => relvec_body::<2, 3, 0>(true);
    c14_relvec_inverse_n2_l2 => relvec_body::<2, 2, 1>(false);
    c14_relvec_conj_n2_l2 => relvec_body::<2, 2, 2>(false);
    c14_relvec_product_n2_l2 => relvec_body::<2, 2, 3>(false);
    c14_relvec_rotation_n2_l2 => relvec_body::<2, 2, 4>(false);
    c14_relvec_rotation_n2_l2_reach => relvec_body::<2, 2, 4>(true);
    c14_relvec_conj_n2_l3 => relvec_body::<2, 3, 2>(false);
    c14_relvec_product_n3_l3 => relvec_body::<3, 3, 3>(false);
    c14_abinv_degenerate => abinv_degenerate_body(false);
    c14_abinv_degenerate_reach => abinv_degenerate_body(true);
    c14_abinv_r1_n1_l3 => abinv_body::<1, 1, 3, 4>(false);
    c14_abinv_r1_n2_l2 => abinv_body::<1, 2, 2, 4>(false);
    c14_abinv_r1_n1_l3_reach => abinv_body::<1, 1, 3, 4>(true);
    c14_abinv_r1_n2_l2_reach => abinv_body::<1, 2, 2, 4>(true);
    c14_abinv_r2_n1_l2 => abinv_body::<2, 1, 2, 4>(false);
    c14_abinv_r2_n2_l2 => abinv_body::<2, 2, 2, 5>(false);
}
