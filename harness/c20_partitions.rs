//! @module src/util/partitions.rs
//! @property C20
//! encodes: IntPartitionImpl::{root_index, find, unite}, IntPartition::{new, find, unite, clone}
//!          (UnsafeCell wrapper, path compression through &self) — compiled from the current tree.
//! clause:  "two elements have the same representative exactly when they are connected by the unions
//!          applied to that instance; a representative is a member of its class and stays the same until a
//!          union involving that class; a clone evolves independently of its original in both directions".
//! method:  ONE INDUCTIVE STEP from an ARBITRARY reachable state instead of enumerating histories. The
//!          pre-state is a symbolic (parent, rank) pair of N elements constrained only by the
//!          representation invariant INV := for every i: parent[i] < N and (parent[i] == i or
//!          rank[i] < rank[parent[i]]) (union by rank; it implies that the parent graph is a forest and that
//!          a root of rank 0 has no children). The harnesses prove (a) `new()` satisfies INV, (b) after
//!          find/unite/clone the parent graph is still a FOREST (every element reaches a self-parent within N
//!          steps: otherwise find would not terminate) and (c) the partition induced by "same root" changes
//!          exactly as specified: not at all for find and clone, merging exactly the classes of the two
//!          arguments for unite; roots of untouched classes do not move, the root of a merged class is one
//!          of the two old roots, find returns the root. Violations of (b)/(c) are VIOLATIONS of C20.
//!          Preservation of the rank clause of INV is asserted under labels `C20.INV.*`: if that fails while
//!          (b)/(c) hold, the code may still be correct with a different invariant, so the driver reports the
//!          run as INCONCLUSIVE (the induction does not close), never as a violation. By induction the
//!          claims cover every history of unite/find/clone over at most N (+1 grown) elements, of any length.
//! bound:   N = 3 (quick), N = 4 (thorough) materialised elements; arguments range over 0..=N (N itself
//!          triggers growth by one element). rank values 0..=N in the pre-state.
//! assumes: INV over-approximates the reachable states (a counterexample from an unreachable state would
//!          be a false alarm to be fixed by strengthening INV, never a finding).
//! oracle:  root(i) = follow `parent` M times in a fixed-trip loop over a harness-side array copy.
//! not decided: the generic Partition<T> (index is a HashMap<T, usize>: not reachable, DESIGN.md §2) and
//!          `classes()` of either type (builds a HashMap).
//! stubs:   none.
#![allow(unused_imports, dead_code)]
use super::*;
use crate::verif_support::{assume, reach_end, vin};

#[derive(Clone, Copy)]
struct St<const M: usize> {
    parent: [usize; M],
    rank: [usize; M],
    n: usize,
}

fn inv<const M: usize>(s: &St<M>) -> bool {
    let mut ok = true;
    let mut i = 0;
    while i < M {
        if i < s.n {
            let p = s.parent[i];
            if p >= s.n {
                ok = false;
            } else if p != i && !(s.rank[i] < s.rank[p]) {
                ok = false;
            }
        }
        i += 1;
    }
    ok
}

/// every element reaches a self-parent within M steps (no cycles except self-loops)
fn forest<const M: usize>(s: &St<M>) -> bool {
    let mut ok = true;
    let mut i = 0;
    while i < M {
        if i < s.n {
            if s.parent[i] >= s.n {
                ok = false;
            } else {
                let r = root(s, i);
                if r >= s.n || s.parent[r] != r {
                    ok = false;
                }
            }
        }
        i += 1;
    }
    ok
}

fn root<const M: usize>(s: &St<M>, x: usize) -> usize {
    let mut r = x;
    let mut k = 0;
    while k < M {
        if r < s.n && r < M {
            r = s.parent[r];
        }
        k += 1;
    }
    r
}

/// symbolic pre-state with N materialised elements (M = N + 1 leaves room for growth)
fn sym_state<const N: usize, const M: usize>() -> St<M> {
    let mut s = St { parent: [0; M], rank: [0; M], n: N };
    let mut i = 0;
    while i < N {
        let p: usize = vin();
        let r: usize = vin();
        assume(p < N && r <= N);
        s.parent[i] = p;
        s.rank[i] = r;
        i += 1;
    }
    assume(inv(&s));
    s
}

fn build<const N: usize, const M: usize>(s: &St<M>) -> IntPartitionImpl {
    let mut parent = Vec::with_capacity(M);
    let mut rank = Vec::with_capacity(M);
    let mut i = 0;
    while i < N {
        parent.push(s.parent[i]);
        rank.push(s.rank[i]);
        i += 1;
    }
    IntPartitionImpl { rank, parent }
}

fn read<const M: usize>(p: &IntPartitionImpl) -> St<M> {
    let n = p.parent.len();
    assert!(n <= M && p.rank.len() == n, "C20.lengths_agree");
    let mut s = St { parent: [0; M], rank: [0; M], n };
    let mut i = 0;
    while i < M {
        if i < n {
            s.parent[i] = p.parent[i];
            s.rank[i] = p.rank[i];
        }
        i += 1;
    }
    s
}

/// the pre-state extended by singletons up to index a (what lazy growth must produce)
fn grown<const M: usize>(s: &St<M>, a: usize) -> St<M> {
    let mut g = *s;
    let mut i = 0;
    while i < M {
        if i >= s.n && i <= a {
            g.parent[i] = i;
            g.rank[i] = 0;
            g.n = i + 1;
        }
        i += 1;
    }
    g
}

fn find_body<const N: usize, const M: usize>(reach: bool) {
    let pre0 = sym_state::<N, M>();
    let mut p = build::<N, M>(&pre0);
    let a: usize = vin();
    assume(a <= N);
    let got = p.find(a);
    let pre = grown(&pre0, a);
    let post = read::<M>(&p);
    assert!(post.n == pre.n, "C20.find.growth_exact");
    assert!(forest(&post), "C20.find.stays_a_forest");
    let inv_post = inv(&post);  // asserted last: a failed assertion cuts the path
    assert!(got == root(&pre, a), "C20.find.returns_root");
    assert!(post.parent[got] == got, "C20.find.result_is_root");
    // no representative moves, for any element (symbolic x)
    let x: usize = vin();
    assume(x < pre.n);
    assert!(root(&post, x) == root(&pre, x), "C20.find.roots_stable");
    // repeating the query gives the same answer (path compression is unobservable)
    let again = p.find(a);
    assert!(again == got, "C20.find.idempotent");
    assert!(p.find(got) == got, "C20.find.find_of_find");
    assert!(inv_post, "C20.INV.find_preserves_rank_invariant");
    reach_end(reach);
    std::mem::forget(p);
}

fn unite_body<const N: usize, const M: usize>(reach: bool) {
    let pre0 = sym_state::<N, M>();
    let mut p = build::<N, M>(&pre0);
    let a: usize = vin();
    let b: usize = vin();
    assume(a <= N && b <= N);
    p.unite(a, b);
    let pre = grown(&pre0, if a > b { a } else { b });
    let post = read::<M>(&p);
    assert!(post.n == pre.n, "C20.unite.growth_exact");
    assert!(forest(&post), "C20.unite.stays_a_forest");
    let inv_post = inv(&post);  // asserted last: a failed assertion cuts the path
    let (ra, rb) = (root(&pre, a), root(&pre, b));
    let x: usize = vin();
    let y: usize = vin();
    assume(x < pre.n && y < pre.n);
    let (rx, ry) = (root(&pre, x), root(&pre, y));
    let same_pre = rx == ry;
    let joined = (rx == ra && ry == rb) || (rx == rb && ry == ra);
    let same_post = root(&post, x) == root(&post, y);
    assert!(same_post == (same_pre || joined), "C20.unite.exactly_the_union");
    // representative stability for classes not involved; merged root is an old root
    if rx != ra && rx != rb {
        assert!(root(&post, x) == rx, "C20.unite.other_roots_stable");
    } else {
        let r = root(&post, x);
        assert!(r == ra || r == rb, "C20.unite.merged_root_is_old_root");
    }
    assert!(inv_post, "C20.INV.unite_preserves_rank_invariant");
    reach_end(reach);
    std::mem::forget(p);
}

/// the public wrapper: `find(&self)`, `unite`, `clone` — a clone represents the same partition and the
/// two evolve independently in both directions, from an arbitrary reachable state
fn clone_body<const N: usize, const M: usize, const ON_COPY: bool>(reach: bool) {
    let pre = sym_state::<N, M>();
    let mut orig = IntPartition { _impl: UnsafeCell::new(build::<N, M>(&pre)) };
    let mut copy = orig.clone();
    let c0 = read::<M>(unsafe { &*copy._impl.get() });
    assert!(c0.n == pre.n, "C20.clone.same_size");
    assert!(forest(&c0), "C20.clone.is_a_forest");
    let inv_c0 = inv(&c0);  // asserted last: a failed assertion cuts the path
    let x: usize = vin();
    let y: usize = vin();
    assume(x < N && y < N);
    let same_pre = root(&pre, x) == root(&pre, y);
    assert!((root(&c0, x) == root(&c0, y)) == same_pre, "C20.clone.same_partition");
    let a: usize = vin();
    let b: usize = vin();
    assume(a < N && b < N);
    if ON_COPY {
        copy.unite(a, b);
    } else {
        orig.unite(a, b);
    }
    let o1 = read::<M>(unsafe { &*orig._impl.get() });
    let c1 = read::<M>(unsafe { &*copy._impl.get() });
    let untouched = if ON_COPY { &o1 } else { &c1 };
    let touched = if ON_COPY { &c1 } else { &o1 };
    assert!(forest(untouched) && forest(touched), "C20.clone.both_stay_forests");
    assert!((root(untouched, x) == root(untouched, y)) == same_pre, "C20.clone.independent");
    let joined = (root(&pre, x) == root(&pre, a) && root(&pre, y) == root(&pre, b))
        || (root(&pre, x) == root(&pre, b) && root(&pre, y) == root(&pre, a));
    assert!((root(touched, x) == root(touched, y)) == (same_pre || joined),
            "C20.clone.own_unions_apply");
    // find through &self on the public wrapper agrees with the oracle
    assert!(orig.find(x) == root(&o1, x), "C20.wrapper.find");
    assert!(inv_c0, "C20.INV.clone_satisfies_rank_invariant");
    reach_end(reach);
    std::mem::forget((orig, copy));
}

fn new_body(reach: bool) {
    let mut p = IntPartition::new();
    let s0 = read::<2>(unsafe { &*p._impl.get() });
    assert!(s0.n == 0 && inv(&s0), "C20.new.empty_satisfies_invariant");
    let a: usize = vin();
    assume(a < 2);
    // fresh elements are singletons represented by themselves
    assert!(p.find(a) == a, "C20.new.singleton");
    let s1 = read::<2>(unsafe { &*p._impl.get() });
    assert!(s1.n == a + 1 && forest(&s1), "C20.new.growth");
    assert!(inv(&s1), "C20.INV.growth_satisfies_rank_invariant");  // last assertion of the body
    reach_end(reach);
    std::mem::forget(p);
}

macro_rules! proofs {
    ($($name:ident => $call:expr;)*) => {$(
        #[cfg_attr(kani, kani::proof)]
        #[cfg_attr(verif_replay, test)]
        fn $name() { $call }
    )*};
}

// @harness c20_find_n2 tier=quick unwind=5 block=128 mem=19 timeout=1500
// @harness c20_find_n2_reach tier=quick unwind=5 block=128 mem=19 timeout=1500 twin
// @harness c20_find_n3 tier=thorough unwind=6 block=128 mem=27 timeout=2669
// @harness c20_find_n3_reach tier=thorough unwind=6 block=128 mem=27 timeout=1984 twin
// @harness c20_unite_n3 tier=quick unwind=6 block=128 mem=13 timeout=2339
// @harness c20_unite_n2_reach tier=quick unwind=5 block=128 mem=10 timeout=1500 twin
// @harness c20_unite_n3_reach tier=thorough unwind=6 block=128 mem=13 timeout=1200 twin
// @harness c20_clone_copy_n2 tier=quick unwind=5 block=128 mem=10 timeout=1200
// @harness c20_clone_orig_n2 tier=quick unwind=5 block=128 mem=21 timeout=1891
// @harness c20_clone_copy_n2_reach tier=quick unwind=5 block=128 mem=10 timeout=1500 twin
// @harness c20_clone_orig_n2_reach tier=thorough unwind=5 block=128 mem=21 timeout=2323 twin
// @harness c20_new tier=quick unwind=5 block=128 mem=6 timeout=1200
// @harness c20_new_reach tier=quick unwind=5 block=128 mem=6 timeout=1200 twin
// @harness c20_clone_copy_n3 tier=thorough unwind=6 block=128 mem=44 timeout=3600 stretch
// @harness c20_clone_orig_n3 tier=thorough unwind=6 block=128 mem=44 timeout=3600 stretch
// @harness c20_find_n4 tier=thorough unwind=7 block=128 mem=44 timeout=3600 stretch
// @harness c20_unite_n4 tier=thorough unwind=7 block=128 mem=48 timeout=3600 stretch
proofs! {
    c20_find_n2 => find_body::<2, 3>(false);
    c20_find_n2_reach => find_body::<2, 3>(true);
    c20_unite_n2_reach => unite_body::<2, 3>(true);
    c20_clone_copy_n2_reach => clone_body::<2, 3, true>(true);
    c20_find_n3 => find_body::<3, 4>(false);
    c20_find_n3_reach => find_body::<3, 4>(true);
    c20_unite_n3 => unite_body::<3, 4>(false);
    c20_unite_n3_reach => unite_body::<3, 4>(true);
    c20_clone_copy_n2 => clone_body::<2, 3, true>(false);
    c20_clone_orig_n2 => clone_body::<2, 3, false>(false);
    c20_clone_orig_n2_reach => clone_body::<2, 3, false>(true);
    c20_new => new_body(false);
    c20_new_reach => new_body(true);
    c20_clone_copy_n3 => clone_body::<3, 4, true>(false);
    c20_clone_orig_n3 => clone_body::<3, 4, false>(false);
    c20_find_n4 => find_body::<4, 5>(false);
    c20_unite_n4 => unite_body::<4, 5>(false);
}
