//! @module src/derived.rs
//! @property C05
//! encodes: derived::{cover, build_set, build_sym_using_ms} (+ PartialDSet::{new, set}, PartialDSym::{from, r, m,
//!          set_v, orbit_reps_2d}, collect_orbits) — compiled from the current tree. `cover` is the ONE function
//!          through which every cover constructor of the crate (oriented_cover, covers, subgroup_cover,
//!          finite_universal_cover, cover_for_table) builds its result.
//! clause:  "the projection of its chambers onto the base commutes with every operation, preserves every degree
//!          and has the same number of preimages over every base chamber", and completeness — for the covering
//!          CONSTRUCTION, given an arbitrary admissible sheet map.
//! method:  base symbol: EVERY valid D-symbol of the shape in the harness name (as in c02_dsyms.rs); sheet map:
//!          an arbitrary table smap[sheet][i][d] in 0..K constrained only by admissibility: (a) consistency with
//!          the pairing — if op_i(d) = e and smap[k][i][d] = k' then smap[k'][i][e] = k (what a permutation
//!          action of the edge words guarantees), (b) branching compatibility — the (i,i+1)-orbit of every
//!          cover chamber has a length that divides the degree m of the base orbit (what a subgroup of the
//!          orbifold group guarantees). Asserted: size = K * size(base); for symbolic index i and cover chamber
//!          D: op(i, D) lies over op(i, pi(D)) on the sheet the map prescribes, is an involution, m(i,i+1,D) =
//!          m(i,i+1,pi(D)), r(i,i+1,D) is the true orbit length, the cover is complete.
//! bound:   K = 2 sheets over 1 base chamber in dimension 2 (quick); 2 sheets over 2 chambers, 3 sheets over
//!          1 chamber (thorough).
//! not decided: the sheet maps the individual constructors compute (partial_orientation goes through Traversal;
//!          the others through the fundamental group and coset enumeration: HashMap/BTreeMap/BTreeSet state),
//!          hence connectedness of the result, "oriented cover is oriented with 1 or 2 sheets", "universal cover
//!          has trivial group", "one cover per conjugacy class".
//! stubs:   none.
#![allow(unused_imports, dead_code)]
use super::*;
use crate::dsets::verif_c02_dsets::{sym_ops, Ops};
use crate::dsyms::verif_c02_dsyms::{build_partial_dsym, sym_vs};
use crate::verif_support::{assume, reach_end, vin};
use crate::dsets::verif_c04_morphism::ArrSym;

/// the array-backed implementor of c04_morphism.rs as a D-symbol: v = m / r
impl<const N: usize, const D1: usize> DSym for ArrSym<N, D1> {
    fn v(&self, i: usize, j: usize, d: usize) -> Option<usize> {
        match (self.m(i, j, d), self.r(i, j, d)) {
            (Some(m), Some(r)) if r > 0 => Some(m / r),
            _ => None,
        }
    }
}

/// `cover` instantiated for the array-backed base symbol (no heap in the base: the cost is the cover's own
/// construction, which allows more sheets / chambers than the PartialDSym instantiation below)
fn cover_arr_body<const N: usize, const D1: usize, const K: usize, const KN: usize>(reach: bool) {
    let dim = D1 - 1;
    let o = sym_ops::<N, D1>(true);
    assume(o.commuting());
    // degrees: m = r * v with v in 1..=3, constant on (i,i+1)-orbits
    let mut ms = [[0usize; N]; D1];
    let mut i = 0;
    while i + 1 < D1 {
        let mut d = 1;
        while d <= N {
            let v: usize = vin();
            assume(1 <= v && v <= 3);
            ms[i][d - 1] = v * o.orbit_len(i, i + 1, d);
            d += 1;
        }
        i += 1;
    }
    let mut i = 0;
    while i + 1 < D1 {
        let mut d = 1;
        while d <= N {
            assume(ms[i][o.get(i, d) - 1] == ms[i][d - 1]);
            assume(ms[i][o.get(i + 1, d) - 1] == ms[i][d - 1]);
            d += 1;
        }
        i += 1;
    }
    let base = ArrSym::<N, D1> { o, ms };

    let mut smap = [[[0usize; N]; D1]; K];
    let mut k = 0;
    while k < K {
        let mut i = 0;
        while i < D1 {
            let mut d = 0;
            while d < N {
                let x: usize = vin();
                assume(x < K);
                smap[k][i][d] = x;
                d += 1;
            }
            i += 1;
        }
        k += 1;
    }
    let mut k = 0;
    while k < K {
        let mut i = 0;
        while i < D1 {
            let mut d = 1;
            while d <= N {
                let e = o.get(i, d);
                assume(smap[smap[k][i][d - 1]][i][e - 1] == k);
                d += 1;
            }
            i += 1;
        }
        k += 1;
    }
    let mut cops = Ops::<KN, D1> { op: [[0usize; KN]; D1] };
    let mut i = 0;
    while i < D1 {
        let mut c = 1;
        while c <= KN {
            let (k, d) = ((c - 1) / N, (c - 1) % N + 1);
            cops.op[i][c - 1] = N * smap[k][i][d - 1] + o.get(i, d);
            c += 1;
        }
        i += 1;
    }
    let mut i = 0;
    while i + 1 < D1 {
        let mut c = 1;
        while c <= KN {
            let d = (c - 1) % N + 1;
            assume(ms[i][d - 1] % cops.orbit_len(i, i + 1, c) == 0);
            c += 1;
        }
        i += 1;
    }

    let cov = cover(&base, K, |k, i, d| smap[k][i][d - 1]);

    assert!(cov.size() == KN && cov.dim() == dim, "C05.cover.size_dim");
    let i: usize = vin();
    let c: usize = vin();
    assume(i <= dim && 1 <= c && c <= KN);
    let d = (c - 1) % N + 1;
    let e = cov.op(i, c);
    assert!(e == Some(cops.get(i, c)), "C05.cover.op_as_prescribed");
    let e = e.unwrap();
    assert!((e - 1) % N + 1 == o.get(i, d), "C05.cover.projection_commutes");
    assert!(cov.op(i, e) == Some(c), "C05.cover.involution");
    if i < dim {
        assert!(cov.r(i, i + 1, c) == Some(cops.orbit_len(i, i + 1, c)), "C05.cover.r_is_orbit_length");
        assert!(cov.m(i, i + 1, c) == Some(ms[i][d - 1]), "C05.cover.degrees_preserved");
        assert!(cov.v(i, i + 1, c) == Some(ms[i][d - 1] / cops.orbit_len(i, i + 1, c)), "C05.cover.v_is_m_over_r");
    }
    assert!(cov.is_complete(), "C05.cover.complete");
    reach_end(reach);
    std::mem::forget(cov);
}

fn cover_body<const N: usize, const D1: usize, const K: usize, const KN: usize>(reach: bool) {
    let dim = D1 - 1;
    let o = sym_ops::<N, D1>(true);
    assume(o.commuting());
    let vs = sym_vs(&o);
    let base = build_partial_dsym(&o, &vs);

    // arbitrary sheet map, consistent with the pairing of chambers
    let mut smap = [[[0usize; N]; D1]; K];
    let mut k = 0;
    while k < K {
        let mut i = 0;
        while i < D1 {
            let mut d = 0;
            while d < N {
                let x: usize = vin();
                assume(x < K);
                smap[k][i][d] = x;
                d += 1;
            }
            i += 1;
        }
        k += 1;
    }
    let mut k = 0;
    while k < K {
        let mut i = 0;
        while i < D1 {
            let mut d = 1;
            while d <= N {
                let e = o.get(i, d);
                assume(smap[smap[k][i][d - 1]][i][e - 1] == k);
                d += 1;
            }
            i += 1;
        }
        k += 1;
    }
    // the cover's operations as the specification prescribes them: chamber (k, d) = k * N + d
    let mut cops = Ops::<KN, D1> { op: [[0usize; KN]; D1] };
    let mut i = 0;
    while i < D1 {
        let mut c = 1;
        while c <= KN {
            let (k, d) = ((c - 1) / N, (c - 1) % N + 1);
            cops.op[i][c - 1] = N * smap[k][i][d - 1] + o.get(i, d);
            c += 1;
        }
        i += 1;
    }
    // branching compatibility: cover orbit lengths divide the base degrees
    let mut i = 0;
    while i + 1 < D1 {
        let mut c = 1;
        while c <= KN {
            let d = (c - 1) % N + 1;
            let m_base = o.orbit_len(i, i + 1, d) * vs[i][d - 1];
            assume(m_base % cops.orbit_len(i, i + 1, c) == 0);
            c += 1;
        }
        i += 1;
    }

    let cov = cover(&base, K, |k, i, d| smap[k][i][d - 1]);

    assert!(cov.size() == KN && cov.dim() == dim, "C05.cover.size_dim");
    let i: usize = vin();
    let c: usize = vin();
    assume(i <= dim && 1 <= c && c <= KN);
    let d = (c - 1) % N + 1;
    let e = cov.op(i, c);
    assert!(e == Some(cops.get(i, c)), "C05.cover.op_as_prescribed");
    let e = e.unwrap();
    assert!((e - 1) % N + 1 == o.get(i, d), "C05.cover.projection_commutes");
    assert!(cov.op(i, e) == Some(c), "C05.cover.involution");
    if i < dim {
        assert!(cov.r(i, i + 1, c) == Some(cops.orbit_len(i, i + 1, c)), "C05.cover.r_is_orbit_length");
        assert!(cov.m(i, i + 1, c) == base.m(i, i + 1, d), "C05.cover.degrees_preserved");
    }
    assert!(cov.is_complete(), "C05.cover.complete");
    reach_end(reach);
    std::mem::forget((base, cov));
}

macro_rules! proofs {
    ($($name:ident => $call:expr;)*) => {$(
        #[cfg_attr(kani, kani::proof)]
        #[cfg_attr(verif_replay, test)]
        fn $name() { $call }
    )*};
}

// @harness c05_cover_n1d2_k2 tier=quick unwind=5 block=64 mem=11 timeout=1905
// @harness c05_cover_n1d2_k2_reach tier=quick unwind=5 block=64 mem=10 timeout=1200 twin
// @harness c05_cover_n1d2_k3 tier=thorough unwind=6 block=128 mem=44 timeout=3600 stretch
// @harness c05_cover_n2d2_k2 tier=thorough unwind=7 block=128 mem=46 timeout=3600 stretch
// @harness c05_cover_n1d3_k2 tier=thorough unwind=6 block=128 mem=44 timeout=3600 stretch
// @harness c05_arr_n1d2_k2 tier=probe unwind=5 block=64 mem=11 timeout=1905
// @harness c05_arr_n1d2_k3 tier=probe unwind=6 block=128 mem=24 timeout=3600
// @harness c05_arr_n2d2_k2 tier=probe unwind=7 block=128 mem=24 timeout=3600
// @harness c05_arr_n1d3_k2 tier=probe unwind=6 block=128 mem=24 timeout=3600
proofs! {
    c05_arr_n1d2_k2 => cover_arr_body::<1, 3, 2, 2>(false);
    c05_arr_n1d2_k3 => cover_arr_body::<1, 3, 3, 3>(false);
    c05_arr_n2d2_k2 => cover_arr_body::<2, 3, 2, 4>(false);
    c05_arr_n1d3_k2 => cover_arr_body::<1, 4, 2, 2>(false);
    c05_cover_n1d2_k2 => cover_body::<1, 3, 2, 2>(false);
    c05_cover_n1d2_k2_reach => cover_body::<1, 3, 2, 2>(true);
    c05_cover_n1d2_k3 => cover_body::<1, 3, 3, 3>(false);
    c05_cover_n2d2_k2 => cover_body::<2, 3, 2, 4>(false);
    c05_cover_n1d3_k2 => cover_body::<1, 4, 2, 2>(false);
}
