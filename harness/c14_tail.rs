//! @module src/fpgroups/invariants.rs
//! @property C14
//! encodes: abelian_invariants with `diagonalize_in_place` STUBBED OUT (Kani only): relator_as_vector per
//!          relator, extraction of the diagonal, the divisibility-chain fix-up (gcdx / lcm step), dropping of
//!          1s, padding with one 0 per free generator, sort — compiled from the current tree.
//! clause:  "the returned list is the ascending list of invariant factors different from 1 ... with one 0 for each
//!          free generator" — for the part of abelian_invariants that FOLLOWS the diagonalisation.
//! method:  the end-to-end call does not leave symbolic execution within 20 min even for one relator over one
//!          generator (nested data-dependent loops of diagonalize_in_place are unrolled under the iterator
//!          adaptors of the tail), so the two halves are decided separately: c14_invariants.rs proves that
//!          diagonalize_in_place returns a non-negative diagonal matrix with the same determinantal divisors;
//!          here the input is ALREADY diagonal and non-negative (relators g_i^e_i, e_i >= 0), diagonalize_in_place
//!          is replaced by the identity, and the result must be the invariant factors of diag(e_1, .., e_n) for
//!          EVERY order of the e_i (the real function returns one particular order, so this over-approximates
//!          what the tail can see). In the native replay nothing is stubbed: a counterexample must also fail
//!          with the real diagonalisation in place, otherwise it is reported as non-reproducing (inconclusive).
//! bound:   n = R = 2 and n = R = 3, exponents 0..=E (E in the harness name); n = 3, R = 2 (one free generator).
//! oracle:  d1 = gcd(e_i), d1*d2 = gcd(e_i*e_j), d1*d2*d3 = e1*e2*e3 with a fixed-trip Euclid loop.
//! stubs:   diagonalize_in_place -> identity; std `<[usize]>::sort` -> insertion sort (both Kani only).
#![allow(unused_imports, dead_code)]
use super::*;
use crate::verif_support::{assume, reach_end, vin};

#[cfg(kani)]
fn stub_diagonalize(_mat: &mut Vec<Vec<isize>>) {}

fn ogcd<const K: usize>(a: isize, b: isize) -> isize {
    let (mut a, mut b) = (a, b);
    let mut k = 0;
    while k < K {
        if b != 0 {
            let t = a % b;
            a = b;
            b = t;
        }
        k += 1;
    }
    assert!(b == 0, "C14.harness.oracle_gcd_trip_count");
    a
}

/// R relators over N generators: relator i is g_(i+1)^(e_i); ex[i] = 0 for i >= R
fn tail_body<const N: usize, const R: usize, const E: usize, const K: usize>(reach: bool) {
    let mut rels: Vec<FreeWord> = Vec::with_capacity(R);
    let mut ex = [0isize; 3];
    let mut i = 0;
    while i < R {
        let e: usize = vin();
        assume(e <= E);
        let mut letters = [0isize; E];
        let mut k = 0;
        while k < E {
            if k < e {
                letters[k] = i as isize + 1;
            }
            k += 1;
        }
        rels.push(FreeWord::new(letters));
        ex[i] = e as isize;
        i += 1;
    }
    let got = abelian_invariants(N, rels.iter());
    let (a, b, c) = (ex[0], ex[1], ex[2]);
    let rank = (a != 0) as usize + (b != 0) as usize + (c != 0) as usize;
    // invariant factors of diag(a, b, c) restricted to its non-zero entries
    let (x, y, z) = if rank == 3 {
        (a, b, c)
    } else if rank == 2 {
        if a == 0 { (b, c, 1) } else if b == 0 { (a, c, 1) } else { (a, b, 1) }
    } else if rank == 1 {
        (a + b + c, 1, 1)
    } else {
        (1, 1, 1)
    };
    let f1 = ogcd::<K>(ogcd::<K>(x, y), z);
    let d2 = ogcd::<K>(ogcd::<K>(x * y, x * z), y * z);
    let f2 = d2 / f1;
    let f3 = x * y * z / d2;
    let mut want = [0usize; 3];
    let mut n = N - rank;
    if f1 != 1 {
        want[n] = f1 as usize;
        n += 1;
    }
    if f2 != 1 {
        want[n] = f2 as usize;
        n += 1;
    }
    if f3 != 1 {
        want[n] = f3 as usize;
        n += 1;
    }
    assert!(got.len() == n, "C14.abinv.tail.length");
    let mut i = 0;
    while i < 3 {
        if i < n {
            assert!(got[i] == want[i], "C14.abinv.tail.value");
        }
        i += 1;
    }
    reach_end(reach);
    std::mem::forget((rels, got));
}

/// functional model of `<[usize]>::sort` (insertion sort). std's driftsort does not leave symbolic
/// execution when the slice LENGTH is symbolic (all size classes are explored); std is trusted, and for
/// integer keys any correct sort is observationally the same.
#[cfg(kani)]
fn stub_sort<T: Ord>(s: &mut [T]) {
    let n = s.len();
    let mut i = 1;
    while i < n {
        let mut j = i;
        while j > 0 && s[j - 1] > s[j] {
            s.swap(j - 1, j);
            j -= 1;
        }
        i += 1;
    }
}

macro_rules! proofs {
    ($($name:ident => $call:expr;)*) => {$(
        #[cfg_attr(kani, kani::proof)]
        #[cfg_attr(kani, kani::stub(<[usize]>::sort, stub_sort))]
        #[cfg_attr(kani, kani::stub(diagonalize_in_place, stub_diagonalize))]
        #[cfg_attr(verif_replay, test)]
        fn $name() { $call }
    )*};
}

// @harness c14_tail_n2_r2_e3 tier=quick unwind=8 block=256 small=64 mem=7 timeout=1605
// @harness c14_tail_n2_r2_e3_reach tier=quick unwind=8 block=256 small=64 mem=6 timeout=1717 twin
// @harness c14_tail_n3_r3_e3 tier=quick unwind=8 block=256 small=64 mem=12 timeout=3600
// @harness c14_tail_n3_r2_e3 tier=thorough unwind=8 block=256 small=64 mem=24 timeout=3000 stretch
// @harness c14_tail_n3_r3_e5 tier=thorough unwind=12 block=256 small=64 mem=44 timeout=3600 stretch
proofs! {
    c14_tail_n2_r2_e3 => tail_body::<2, 2, 3, 6>(false);
    c14_tail_n2_r2_e3_reach => tail_body::<2, 2, 3, 6>(true);
    c14_tail_n3_r3_e3 => tail_body::<3, 3, 3, 6>(false);
    c14_tail_n3_r2_e3 => tail_body::<3, 2, 3, 6>(false);
    c14_tail_n3_r3_e5 => tail_body::<3, 3, 5, 10>(false);
}
