#!/usr/bin/env python3
"""Verifies a seeded change delivered by a sub-agent and files it under /verif/seeded/<id>/.

    seedverify.py <id> <property> <mut.diff> <demo.rs> <notes.md> "<change>" "<needs>"

In a scratch git worktree of /repo (created under /tmp, removed afterwards; the cargo target
directory /tmp/seedverify-target is shared between calls and removed by `seedverify.py --clean`):
  1. clean tree + demo           -> demo passes
  2. changed tree, no demo       -> full suite: 168 passed, 0 failed
  3. changed tree + demo         -> demo fails
Only if all three hold is the change kept.  Nothing is ever applied to /repo itself."""
import json, os, re, shutil, subprocess, sys
from pathlib import Path

V = Path(__file__).resolve().parent.parent
TARGET = "/tmp/seedverify-target"
ENV = dict(os.environ, CARGO_NET_OFFLINE="true", CARGO_TARGET_DIR=TARGET)


def sh(cmd, cwd, check=False):
    p = subprocess.run(cmd, cwd=cwd, env=ENV, stdout=subprocess.PIPE, stderr=subprocess.STDOUT)
    if check and p.returncode != 0:
        raise SystemExit("failed: %s\n%s" % (cmd, p.stdout.decode(errors="replace")[-2000:]))
    return p.returncode, p.stdout.decode(errors="replace")


def totals(out):
    ok = sum(int(m.group(1)) for m in re.finditer(r"test result: \w+\. (\d+) passed", out))
    bad = sum(int(m.group(1)) for m in re.finditer(r"test result: \w+\. \d+ passed; (\d+) failed", out))
    return ok, bad


def place_demo(wt, demo):
    first = demo.read_text().splitlines()[0]
    m = re.search(r"place:\s*(?:append to\s+)?(\S+)", first)
    where = m.group(1) if m else "tests/demo.rs"
    if "append" in first:
        with open(wt / where, "a") as f:
            f.write("\n" + demo.read_text())
        return ["cargo", "test", "--offline", "--lib"], where
    (wt / "tests").mkdir(exist_ok=True)
    shutil.copy(demo, wt / "tests/demo.rs")
    return ["cargo", "test", "--offline", "--test", "demo"], "tests/demo.rs"


def main():
    if sys.argv[1] == "--clean":
        shutil.rmtree(TARGET, ignore_errors=True)
        return
    mid, prop, diff, demo, notes, change, needs = sys.argv[1:8]
    diff, demo, notes = Path(diff), Path(demo), Path(notes)
    wt = Path("/tmp/seedverify-%s" % mid)
    subprocess.run(["git", "-C", "/repo", "worktree", "remove", "--force", str(wt)],
                   stdout=subprocess.DEVNULL, stderr=subprocess.DEVNULL)
    sh(["git", "-C", "/repo", "worktree", "add", "--detach", str(wt), "HEAD"], "/repo", check=True)
    ran = []
    try:
        head = sh(["git", "rev-parse", "--short", "HEAD"], wt)[1].strip()
        # 1. clean + demo
        cmd, where = place_demo(wt, demo)
        rc, out = sh(cmd, wt)
        ok1 = rc == 0
        ran.append("clean tree at %s + demo (%s): %s -> rc %d" % (head, where, " ".join(cmd), rc))
        sh(["git", "checkout", "--", "."], wt)
        if (wt / "tests/demo.rs").exists():
            os.unlink(wt / "tests/demo.rs")
        # 2. changed, no demo: suite
        sh(["git", "apply", str(diff)], wt, check=True)
        rc, out = sh(["cargo", "test", "--workspace", "--no-fail-fast", "--offline"], wt)
        p, f = totals(out)
        ok2 = rc == 0 and f == 0 and p == 168
        ran.append("changed tree: cargo test --workspace --no-fail-fast --offline -> %d passed, %d failed (rc %d)" % (p, f, rc))
        # 3. changed + demo
        cmd, where = place_demo(wt, demo)
        rc, out3 = sh(cmd, wt)
        ok3 = rc != 0 and ("FAILED" in out3 or "panicked" in out3)
        ran.append("changed tree + demo: %s -> rc %d" % (" ".join(cmd), rc))
        verdict = ok1 and ok2 and ok3
        print("%s: clean+demo %s | suite %s (%d/%d) | changed+demo fails %s => %s"
              % (mid, ok1, ok2, p, f, ok3, "KEEP" if verdict else "REJECT"))
        if not verdict:
            print(out3[-1500:] if not ok3 else out[-1500:])
            return 1
        d = V / "seeded" / mid
        d.mkdir(parents=True, exist_ok=True)
        shutil.copy(diff, d / "patch.diff")
        shutil.copy(demo, d / "demo.rs")
        shutil.copy(notes, d / "notes.md")
        (d / "meta.json").write_text(json.dumps({
            "id": mid, "property": prop, "change": change, "needs_to_manifest": needs,
            "origin": "independent sub-agent given only the property text and a scratch worktree",
            "verified_against_repo_commit": head, "what_i_ran": ran,
            "detected_by": "see DESIGN.md section 6 and detection.json"}, indent=1) + "\n")
        return 0
    finally:
        subprocess.run(["git", "-C", "/repo", "worktree", "remove", "--force", str(wt)],
                       stdout=subprocess.DEVNULL, stderr=subprocess.DEVNULL)


if __name__ == "__main__":
    sys.exit(main())
