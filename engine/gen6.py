#!/usr/bin/env python3
"""gen6 — check of property C06 (D-set generator: sound, irredundant, complete).

    gen6.py check [--tier quick|thorough]
    gen6.py replay <replay.json>

The generator `DSets::new(dim, max_size)` has NO data input: its two parameters are the bound
itself.  Symbolic execution of a program without symbolic inputs is a plain run, so for every
configuration (dim, max_size) in the tier the real generator, built from the CURRENT tree, is run
once and its output list becomes a set of constants.  The universally quantified part of C06 is
over the universe of D-sets, and that part is decided by an SMT solver (z3, cross-checked with
cvc5):

  completeness  for every size s <= max_size:  unsat( X is a tuple of dim+1 involutions on 1..s,
                complete, connected, operations with |i-j| > 1 commute,  AND  for every output O of
                size s and every bijection pi of 1..s:  pi is not an isomorphism X -> O )
                X is symbolic (bit-vector variables); the inner "for every pi" is expanded.
  irredundancy  for every pair of outputs of equal size:  unsat( pi is a bijection and an
                isomorphism O_k -> O_l ), pi symbolic.
  soundness     every output is complete, connected, commuting, of size <= max_size, and the k-th
                output carries the number k: ground formulas over the constants (evaluated directly).

A `sat` answer is a concrete D-set the generator misses (or a concrete isomorphism between two
outputs); it is replayed natively against the real generator (native/verif_c06.rs, public API
only) before it is reported.  Exit 0 / 1 (VIOLATION, replayed) / 2 (inconclusive).
Python stdlib only; solvers: /usr/bin/z3 (4.8.12) and cvc5.
"""
import argparse
import hashlib
import itertools
import json
import os
import shutil
import subprocess
import sys
import time
from pathlib import Path

VERIF = Path(__file__).resolve().parent.parent
REPO = Path(os.environ.get("VERIF_REPO", "/repo"))
OUT = Path(os.environ.get("VERIF_OUT", str(VERIF)))
SCRATCH_ROOT = Path(os.environ.get("VERIF_SCRATCH", "/var/tmp"))
CACHE = VERIF / ".cache"
ENV = dict(os.environ)
ENV["CARGO_NET_OFFLINE"] = "true"
ENV["RUSTFLAGS"] = "--cfg verif_replay -A warnings"    # same flags as kc.py's native cache: dependencies are reused

# (dim, max_size); the completeness query expands s! bijections per output of size s
TIERS = {
    "quick": [(1, 7), (2, 6), (3, 5), (4, 4)],
    "thorough": [(1, 8), (2, 7), (3, 6), (4, 5), (5, 4)],
}
SOLVER_TIMEOUT = {"quick": 300, "thorough": 3000}
BV = 4      # bits per chamber number (sizes <= 7)


def log(*a):
    print(*a, flush=True)


def build_native(scratch):
    repo = scratch / "repo"
    subprocess.check_call(["rsync", "-a", "--delete", "--exclude", "/target", "--exclude", "/.git",
                           str(REPO) + "/", str(repo) + "/"])
    (repo / "examples").mkdir(exist_ok=True)
    shutil.copy(VERIF / "native/verif_c06.rs", repo / "examples/verif_c06.rs")
    target = scratch / "target"
    src = CACHE / "native-target"
    if src.exists():
        subprocess.call(["cp", "-a", "--reflink=auto", str(src), str(target)])
    t0 = time.time()
    p = subprocess.run(["cargo", "build", "--offline", "--example", "verif_c06",
                        "--target-dir", str(target)], cwd=repo, env=ENV,
                       stdout=subprocess.PIPE, stderr=subprocess.STDOUT)
    if p.returncode != 0:
        errs = [l for l in p.stdout.decode(errors="replace").splitlines() if l.startswith("error")]
        return None, "\n".join(errs[:10]), time.time() - t0
    return target / "debug/examples/verif_c06", "", time.time() - t0


def run_dump(exe, dim, n, timeout=600):
    """-> (list of (set_count, size, dim, table)), error"""
    try:
        p = subprocess.run([str(exe), "dump", str(dim), str(n)], stdout=subprocess.PIPE,
                           stderr=subprocess.PIPE, timeout=timeout)
    except subprocess.TimeoutExpired:
        return None, "generator did not terminate within %ds" % timeout
    if p.returncode != 0:
        msg = p.stderr.decode(errors="replace").strip().splitlines()
        return None, "generator crashed (rc=%d): %s" % (p.returncode, " | ".join(msg[:3]))
    outs, end = [], None
    for line in p.stdout.decode().splitlines():
        t = line.split()
        if t[0] == "S":
            cnt, size, d = int(t[1]), int(t[2]), int(t[3])
            flat = [int(x) for x in t[4:]]
            if len(flat) != size * (d + 1):
                return None, "malformed dump line"
            table = [flat[i * size:(i + 1) * size] for i in range(d + 1)]
            outs.append((cnt, size, d, table))
        elif t[0] == "END":
            end = int(t[1])
    if end != len(outs):
        return None, "truncated dump"
    return outs, ""


# ---------------------------------------------------------------------------------------------
# ground obligations on the outputs
# ---------------------------------------------------------------------------------------------

def ground_failures(outs, dim, n):
    bad = []
    for k, (cnt, size, d, t) in enumerate(outs):
        why = None
        if cnt != k + 1:
            why = "numbered %d, expected %d" % (cnt, k + 1)
        elif d != dim:
            why = "dimension %d" % d
        elif size < 1 or size > n:
            why = "size %d outside 1..%d" % (size, n)
        else:
            for i in range(d + 1):
                for c in range(1, size + 1):
                    e = t[i][c - 1]
                    if e < 1 or e > size:
                        why = "op(%d,%d) = %d undefined / out of range" % (i, c, e)
                    elif t[i][e - 1] != c:
                        why = "op %d not an involution at %d" % (i, c)
            if why is None:
                for i in range(d + 1):
                    for j in range(i + 2, d + 1):
                        for c in range(1, size + 1):
                            if t[j][t[i][c - 1] - 1] != t[i][t[j][c - 1] - 1]:
                                why = "ops %d, %d do not commute at %d" % (i, j, c)
            if why is None:
                seen, stack = {1}, [1]
                while stack:
                    c = stack.pop()
                    for i in range(d + 1):
                        e = t[i][c - 1]
                        if e not in seen:
                            seen.add(e)
                            stack.append(e)
                if len(seen) != size:
                    why = "not connected"
        if why:
            bad.append((k + 1, why))
    return bad


# ---------------------------------------------------------------------------------------------
# SMT-LIB generation
# ---------------------------------------------------------------------------------------------

def bv(x):
    return "(_ bv%d %d)" % (x, BV)


def completeness_query(dim, s, outs_s):
    """exists X in the universe of size s that is isomorphic to no output of size s"""
    L = ["(set-logic QF_BV)"]
    X = [["x_%d_%d" % (i, d) for d in range(1, s + 1)] for i in range(dim + 1)]
    for i in range(dim + 1):
        for d in range(s):
            L.append("(declare-const %s (_ BitVec %d))" % (X[i][d], BV))
            L.append("(assert (and (bvuge %s %s) (bvule %s %s)))" % (X[i][d], bv(1), X[i][d], bv(s)))
    # involutions: x_i(d) = e  =>  x_i(e) = d
    for i in range(dim + 1):
        for d in range(1, s + 1):
            for e in range(1, s + 1):
                L.append("(assert (=> (= %s %s) (= %s %s)))" % (X[i][d - 1], bv(e), X[i][e - 1], bv(d)))

    def app(i, term):
        r = X[i][s - 1]
        for d in range(s - 1, 0, -1):
            r = "(ite (= %s %s) %s %s)" % (term, bv(d), X[i][d - 1], r)
        return r
    # non-adjacent operations commute
    for i in range(dim + 1):
        for j in range(i + 2, dim + 1):
            for d in range(1, s + 1):
                L.append("(assert (= %s %s))" % (app(j, X[i][d - 1]), app(i, X[j][d - 1])))
    # connected: reachability from chamber 1 in s - 1 rounds
    prev = ["true"] + ["false"] * (s - 1)
    for rnd in range(1, s):
        cur = []
        for e in range(1, s + 1):
            name = "r_%d_%d" % (rnd, e)
            L.append("(declare-const %s Bool)" % name)
            terms = [prev[e - 1]]
            for d in range(1, s + 1):
                for i in range(dim + 1):
                    terms.append("(and %s (= %s %s))" % (prev[d - 1], X[i][d - 1], bv(e)))
            L.append("(assert (= %s (or %s)))" % (name, " ".join(terms)))
            cur.append(name)
        prev = cur
    for e in range(s):
        L.append("(assert %s)" % prev[e])
    # not isomorphic to any output: for every output O and every bijection pi some entry differs:
    # pi is an isomorphism X -> O  iff  for all i, d:  pi(X_i(d)) = O_i(pi(d)), i.e. X_i(d) = pi^-1(O_i(pi(d)))
    nclauses = 0
    seen_tables = set()
    for (_, _, _, t) in outs_s:
        for pi in itertools.permutations(range(1, s + 1)):
            inv = [0] * (s + 1)
            for d in range(1, s + 1):
                inv[pi[d - 1]] = d
            img = tuple(tuple(inv[t[i][pi[d - 1] - 1]] for d in range(1, s + 1)) for i in range(dim + 1))
            if img in seen_tables:
                continue
            seen_tables.add(img)
            diffs = ["(not (= %s %s))" % (X[i][d], bv(img[i][d])) for i in range(dim + 1) for d in range(s)]
            L.append("(assert (or %s))" % " ".join(diffs))
            nclauses += 1
    L.append("(check-sat)")
    L.append("(get-value (%s))" % " ".join(x for row in X for x in row))
    return "\n".join(L) + "\n", nclauses, X


def iso_query(dim, s, ta, tb):
    """exists a bijection pi with pi(a_i(d)) = b_i(pi(d))"""
    L = ["(push 1)"]
    P = ["p_%d" % d for d in range(1, s + 1)]
    for d in range(s):
        L.append("(declare-const %s (_ BitVec %d))" % (P[d], BV))
        L.append("(assert (and (bvuge %s %s) (bvule %s %s)))" % (P[d], bv(1), P[d], bv(s)))
    if s > 1:
        L.append("(assert (distinct %s))" % " ".join(P))

    def b_at(i, term):
        r = bv(tb[i][s - 1])
        for d in range(s - 1, 0, -1):
            r = "(ite (= %s %s) %s %s)" % (term, bv(d), bv(tb[i][d - 1]), r)
        return r
    for i in range(dim + 1):
        for d in range(1, s + 1):
            L.append("(assert (= %s %s))" % (P[ta[i][d - 1] - 1], b_at(i, P[d - 1])))
    L.append("(check-sat)")
    L.append("(pop 1)")
    return "\n".join(L) + "\n"


def run_solver(cmd, text, timeout):
    t0 = time.time()
    try:
        p = subprocess.run(cmd, input=text.encode(), stdout=subprocess.PIPE, stderr=subprocess.STDOUT,
                           timeout=timeout)
    except subprocess.TimeoutExpired:
        return None, time.time() - t0
    return p.stdout.decode(errors="replace"), time.time() - t0


Z3 = ["/usr/bin/z3", "-in", "-smt2"]
CVC5 = ["cvc5", "--lang", "smt2", "--incremental", "--produce-models"]


def parse_values(out):
    vals = {}
    import re
    for m in re.finditer(r"\((\w+)\s+(?:#b([01]+)|#x([0-9a-fA-F]+)|\(_ bv(\d+) \d+\))\)", out):
        name = m.group(1)
        if m.group(2):
            vals[name] = int(m.group(2), 2)
        elif m.group(3):
            vals[name] = int(m.group(3), 16)
        else:
            vals[name] = int(m.group(4))
    return vals


# ---------------------------------------------------------------------------------------------

def replay_native(exe, kind, dim, n, payload):
    if kind == "missing":
        s, table = payload
        args = ["missing", dim, n, s] + [x for row in table for x in row]
    elif kind == "duplicate":
        args = ["duplicate", dim, n, payload[0], payload[1]]
    else:
        return "CONFIRMED ground"
    p = subprocess.run([str(exe)] + [str(a) for a in args], stdout=subprocess.PIPE, stderr=subprocess.PIPE,
                       timeout=600)
    return p.stdout.decode(errors="replace").strip() or ("crash rc=%d" % p.returncode)


def load_known():
    found = []
    p = VERIF / "known_findings.txt"
    if p.exists():
        for line in p.read_text().splitlines():
            if line.startswith("finding:") and "property=C06" in line:
                found.append(line)
    return found


def run_check(tier, seed):
    t_start = time.time()
    scratch = SCRATCH_ROOT / ("verif-C06-%d" % os.getpid())
    if scratch.exists():
        shutil.rmtree(scratch)
    scratch.mkdir(parents=True)
    configs = TIERS[tier]
    cap = SOLVER_TIMEOUT[tier]
    ev = {"configs": [], "queries": 0, "unsat": 0, "sat": 0, "solver_s": 0.0, "replays": 0,
          "ground_obligations": 0, "samples": [], "crosscheck": []}
    violations, inconclusive = [], []
    try:
        exe, err, build_s = build_native(scratch)
        if exe is None:
            log("[gen6] INCONCLUSIVE: the tree does not build:\n" + err)
            write_evidence(tier, seed, ev, 0, ["build failed"], time.time() - t_start)
            return 2
        log("[gen6] built native driver from %s in %.0fs" % (REPO, build_s))
        for (dim, n) in configs:
            outs, err = run_dump(exe, dim, n)
            cfg = {"dim": dim, "max_size": n}
            if outs is None:
                # a generator that crashes or hangs on its own parameters violates the property outright
                violations.append({"kind": "ground", "dim": dim, "max_size": n, "what": err})
                cfg["error"] = err
                ev["configs"].append(cfg)
                continue
            cfg["outputs"] = len(outs)
            ev["ground_obligations"] += len(outs)
            for (k, why) in ground_failures(outs, dim, n):
                violations.append({"kind": "ground", "dim": dim, "max_size": n,
                                   "what": "output %d: %s" % (k, why)})
            by_size = {}
            for o in outs:
                by_size.setdefault(o[1], []).append(o)
            cfg["per_size"] = {}
            # irredundancy: one incremental z3 session per size
            for s, lst in sorted(by_size.items()):
                if any(len(o[3]) != dim + 1 or any(x < 1 or x > s for r in o[3] for x in r) for o in lst):
                    continue        # malformed outputs were reported above
                text = "(set-logic QF_BV)\n"
                pairs = []
                for a in range(len(lst)):
                    for b in range(a + 1, len(lst)):
                        text += iso_query(dim, s, lst[a][3], lst[b][3])
                        pairs.append((lst[a][0], lst[b][0]))
                if pairs:
                    out, secs = run_solver(Z3, text, cap)
                    ev["solver_s"] += secs
                    if out is None or "(error" in out:
                        inconclusive.append("irredundancy dim=%d size=%d: solver timeout/error" % (dim, s))
                    else:
                        answers = [l for l in out.split() if l in ("sat", "unsat", "unknown")]
                        if len(answers) != len(pairs) or "unknown" in answers:
                            inconclusive.append("irredundancy dim=%d size=%d: incomplete answers" % (dim, s))
                        else:
                            ev["queries"] += len(pairs)
                            ev["unsat"] += answers.count("unsat")
                            for (pr, ans) in zip(pairs, answers):
                                if ans == "sat":
                                    ev["sat"] += 1
                                    violations.append({"kind": "duplicate", "dim": dim, "max_size": n,
                                                       "k": pr[0], "l": pr[1],
                                                       "what": "outputs %d and %d are isomorphic" % pr})
                cfg["per_size"][str(s)] = {"outputs": len(lst), "iso_pairs": len(pairs)}
            # completeness: one query per size
            for s in range(1, n + 1):
                lst = [o for o in by_size.get(s, [])
                       if len(o[3]) == dim + 1 and all(1 <= x <= s for r in o[3] for x in r)]
                text, ncl, X = completeness_query(dim, s, lst)
                out, secs = run_solver(Z3, text, cap)
                ev["solver_s"] += secs
                ev["queries"] += 1
                rec = cfg["per_size"].setdefault(str(s), {"outputs": len(lst), "iso_pairs": 0})
                rec["blocking_clauses"] = ncl
                rec["completeness_s"] = round(secs, 2)
                if out is None or "(error" in out.split("(get-value")[0] and "unsat" not in out:
                    inconclusive.append("completeness dim=%d size=%d: solver timeout/error" % (dim, s))
                    continue
                first = out.split()[0] if out.split() else ""
                if first == "unsat":
                    ev["unsat"] += 1
                    # cross-check the verdict with cvc5 (second solver, same text)
                    o2, s2 = run_solver(CVC5, text.replace("(get-value", ";(get-value"), cap)
                    ev["solver_s"] += s2
                    a2 = (o2 or "").split()[0] if (o2 or "").split() else "timeout"
                    ev["crosscheck"].append({"dim": dim, "size": s, "z3": "unsat", "cvc5": a2})
                    if a2 == "sat":
                        inconclusive.append("completeness dim=%d size=%d: z3 unsat but cvc5 sat" % (dim, s))
                elif first == "sat":
                    ev["sat"] += 1
                    vals = parse_values(out)
                    table = [[vals.get(X[i][d], 0) for d in range(s)] for i in range(dim + 1)]
                    violations.append({"kind": "missing", "dim": dim, "max_size": n, "size": s,
                                       "table": table,
                                       "what": "no output is isomorphic to the D-set %s" % table})
                else:
                    inconclusive.append("completeness dim=%d size=%d: solver said %r" % (dim, s, first[:40]))
            ev["configs"].append(cfg)
            if len(ev["samples"]) < 4 and outs:
                ev["samples"].append({"config": [dim, n], "output_%d" % outs[-1][0]: outs[-1][3],
                                      "obligation": "unsat(exists X of size s in the universe isomorphic to no output)"})
            log("[gen6]   dim=%d max_size=%d: %d outputs, %s" % (dim, n, len(outs), json.dumps(cfg["per_size"])))
        # replay before reporting
        known = load_known()
        n_viol = 0
        if len(violations) > 12:
            log("[gen6] %d candidate violations; the first 12 are replayed and reported" % len(violations))
            violations = violations[:12]
        for v in violations:
            if v["kind"] == "missing":
                res = replay_native(exe, "missing", v["dim"], v["max_size"], (v["size"], v["table"]))
            elif v["kind"] == "duplicate":
                res = replay_native(exe, "duplicate", v["dim"], v["max_size"], (v["k"], v["l"]))
            else:
                res = "CONFIRMED ground"
            ev["replays"] += 1
            v["native"] = res
            if not res.startswith("CONFIRMED"):
                inconclusive.append("NON-REPRODUCING counterexample (%s): %s" % (v["what"], res))
                continue
            key = "%s dim=%d max_size=%d" % (v["kind"], v["dim"], v["max_size"])
            if any(key in k and (v["kind"] != "missing" or str(v["table"]) in k) for k in known):
                log("KNOWN-FINDING: property=C06 %s %s" % (key, v["what"]))
                continue
            rdir = OUT / "replays" / "C06"
            rdir.mkdir(parents=True, exist_ok=True)
            h = hashlib.sha1(json.dumps(v, sort_keys=True).encode()).hexdigest()[:10]
            rp = rdir / ("%s-%s.json" % (v["kind"], h))
            rp.write_text(json.dumps(v, indent=1))
            n_viol += 1
            log("VIOLATION property=C06 replay=%s" % rp)
            log("    %s (dim=%d, max_size=%d): %s | native: %s" % (v["kind"], v["dim"], v["max_size"], v["what"], res))
        for m in inconclusive:
            log("INCONCLUSIVE %s" % m)
        rc = 1 if n_viol else (2 if inconclusive else 0)
        write_evidence(tier, seed, ev, n_viol, inconclusive, time.time() - t_start)
        log("[gen6] C06 tier=%s: %d configuration(s), %d solver queries (%d unsat, %d sat), %d violation(s), "
            "%d inconclusive, wall %.0fs -> exit %d" % (tier, len(configs), ev["queries"], ev["unsat"], ev["sat"],
                                                       n_viol, len(inconclusive), time.time() - t_start, rc))
        return rc
    finally:
        shutil.rmtree(scratch, ignore_errors=True)


def write_evidence(tier, seed, ev, n_viol, inconclusive, wall):
    outputs = sum(c.get("outputs", 0) for c in ev["configs"])
    doc = {
        "property_id": "C06", "tier": tier, "seed": seed, "level": "model_checking",
        "wall_s": round(wall, 1), "violations": n_viol,
        "coverage": {
            "states": max(1, outputs),
            "transitions": max(1, sum(r.get("blocking_clauses", 0) for c in ev["configs"]
                                      for r in c.get("per_size", {}).values())),
            "traces_validated_against_impl": ev["replays"],
            "obligations": ev["queries"] + ev["ground_obligations"],
            "discharged": ev["unsat"] + ev["ground_obligations"] - 0,
            "samples": ev["samples"] or [{"note": "no configuration completed"}],
            "exhaustive": False,
            "configurations": ev["configs"],
            "solver_queries": ev["queries"], "unsat": ev["unsat"], "sat": ev["sat"],
            "solver_seconds": round(ev["solver_s"], 2),
            "second_solver": ev["crosscheck"],
            "functions_encoded": ["generators::dset_generators::DSets (Iterator::next -> BackTrackIterator::next, "
                                  "DSetBackTracking::{root, extract, children}, check_and_apply_implications, "
                                  "scan_orbit, check_canonicity, compare_renumbered_from, next_undefined) — executed "
                                  "from the current tree on its (concrete) parameters; the universe of D-sets and the "
                                  "isomorphism relation are encoded in QF_BV"],
            "explanation": "states = generator outputs turned into constants; transitions = blocking clauses "
                           "(output x bijection, deduplicated) in the completeness queries",
            "inconclusive": inconclusive,
        },
        "assumptions": [
            "the generator has no data input; each configuration (dim, max_size) is executed once from the current "
            "tree (dev profile) and its outputs are constants of the queries — nothing about the generator's "
            "internals is modelled or assumed",
            "bound: configurations %s; sizes above max_size and other dimensions are outside the claim" % TIERS[tier],
            "universe of the completeness query: tuples of dim+1 complete involutions on 1..s, connected, "
            "operations with index distance > 1 commute",
            "solver: z3 4.8.12 (QF_BV); every unsat completeness verdict re-run with cvc5",
        ],
    }
    (OUT / "evidence").mkdir(parents=True, exist_ok=True)
    (OUT / "evidence" / "C06.json").write_text(json.dumps(doc, indent=1) + "\n")


def run_replay(path):
    v = json.loads(Path(path).read_text())
    scratch = SCRATCH_ROOT / ("verif-C06-replay-%d" % os.getpid())
    scratch.mkdir(parents=True, exist_ok=True)
    try:
        exe, err, _ = build_native(scratch)
        if exe is None:
            print("build failed:\n" + err)
            return 2
        if v["kind"] == "missing":
            res = replay_native(exe, "missing", v["dim"], v["max_size"], (v["size"], v["table"]))
        elif v["kind"] == "duplicate":
            res = replay_native(exe, "duplicate", v["dim"], v["max_size"], (v["k"], v["l"]))
        else:
            outs, err = run_dump(exe, v["dim"], v["max_size"])
            bad = [err] if outs is None else ground_failures(outs, v["dim"], v["max_size"])
            res = ("CONFIRMED ground: %s" % bad[:3]) if bad else "REFUTED all outputs are sound"
        print(res)
        return 1 if res.startswith("CONFIRMED") else 0
    finally:
        shutil.rmtree(scratch, ignore_errors=True)


def main():
    ap = argparse.ArgumentParser()
    sub = ap.add_subparsers(dest="cmd", required=True)
    c = sub.add_parser("check")
    c.add_argument("--tier", default=os.environ.get("VERIF_TIER", "quick"), choices=["quick", "thorough"])
    r = sub.add_parser("replay")
    r.add_argument("path")
    a = ap.parse_args()
    if a.cmd == "check":
        sys.exit(run_check(a.tier, int(os.environ.get("VERIF_SEED", "0") or 0)))
    sys.exit(run_replay(a.path))


if __name__ == "__main__":
    main()
