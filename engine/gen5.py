#!/usr/bin/env python3
"""gen5 — the cover CONSTRUCTORS of property C05 (`covers`, `oriented_cover`) on every 2D D-symbol
of a bounded universe.  (The covering CONSTRUCTION `derived::cover` for arbitrary admissible sheet
maps is model-checked by harness/c05_cover.rs through the kc engine; `gen5.py check` runs both
and writes one evidence file.)

    gen5.py check [--tier quick|thorough]
    gen5.py replay <replay.json>

Inputs: every symbol the (C07-checked) D-symbol generator yields for the geometry setting 'all' on
every connected complete 2D D-set with at most n chambers (the C06-checked D-set generator), and
a sheet bound k.  For each base symbol B the real `covers(B, k)` and `oriented_cover(B)`, built
from the CURRENT tree, are run; their results become constants.  Decided:

  ground, per returned cover Y: Y has s * |B| chambers, the projection c -> (c - 1) mod |B| + 1
      commutes with every operation and preserves every degree, every fibre has s chambers, Y is
      complete and connected, every degree is a multiple of the true orbit length in Y;
      oriented_cover(B) is oriented (loopless and bipartite) and has one sheet if B is oriented,
      two otherwise.
  by the solver (z3 QF_BV), per base symbol and sheet number s <= k — "the list of covers with at
      most k sheets has exactly one entry per conjugacy class of subgroups of index at most k":
      conjugacy classes of subgroups of index s of the orbifold group  <->  connected s-sheeted
      coverings of B up to isomorphism OVER B, so
          unsat( Y = a symbolic sheet map x[j][i][d] in 0..s: every operation of Y an involution,
                 every 2-orbit of Y of a length dividing the degree of B below it (operations 0 and 2
                 commute), Y connected,
                 AND for every returned cover O with s sheets and every family phi of sheet
                 permutations (one per base chamber): phi is not an isomorphism Y -> O over B )
      and no two returned covers with the same sheet number are isomorphic over B (ground, through
      the same enumeration of phi).

A `sat` model is a concrete s-sheeted covering the list misses; it is re-checked natively against
a fresh run before it is reported.  Exit 0 / 1 / 2 as everywhere.
"""
import argparse
import hashlib
import itertools
import json
import os
import shutil
import subprocess
import sys
import time
from pathlib import Path

sys.path.insert(0, str(Path(__file__).resolve().parent))
from gen6 import run_solver, Z3, parse_values, log, ENV, VERIF, REPO, OUT, SCRATCH_ROOT, CACHE  # noqa

TIERS = {"quick": (4, 3), "thorough": (5, 3)}         # (max chambers of the base, max sheets)
CAP = {"quick": 120, "thorough": 900}
BV = 3
CVC5 = ["cvc5", "--lang", "smt2", "--produce-models"]


def bv(x):
    return "(_ bv%d %d)" % (x, BV)


def build_native(scratch):
    repo = scratch / "repo"
    subprocess.check_call(["rsync", "-a", "--delete", "--exclude", "/target", "--exclude", "/.git",
                           str(REPO) + "/", str(repo) + "/"])
    (repo / "examples").mkdir(exist_ok=True)
    shutil.copy(VERIF / "native/verif_c05.rs", repo / "examples/verif_c05.rs")
    target = scratch / "target"
    src = CACHE / "native-target"
    if src.exists():
        subprocess.call(["cp", "-a", "--reflink=auto", str(src), str(target)])
    t0 = time.time()
    p = subprocess.run(["cargo", "build", "--offline", "--release", "--example", "verif_c05",
                        "--target-dir", str(target)], cwd=repo, env=ENV, stdout=subprocess.PIPE, stderr=subprocess.STDOUT)
    if p.returncode != 0:
        errs = [l for l in p.stdout.decode(errors="replace").splitlines() if l.startswith("error")]
        return None, "\n".join(errs[:10]), time.time() - t0
    return target / "release/examples/verif_c05", "", time.time() - t0


def parse_sym(t):
    size = int(t[1])
    flat = [int(x) for x in t[2:]]
    if len(flat) != 5 * size:
        return None
    return {"size": size, "ops": [flat[i * size:(i + 1) * size] for i in range(3)],
            "ms": [flat[3 * size + i * size:3 * size + (i + 1) * size] for i in range(2)]}


def run_dump(exe, n, k, timeout=900):
    try:
        p = subprocess.run([str(exe), "dump", str(n), str(k)], stdout=subprocess.PIPE, stderr=subprocess.PIPE, timeout=timeout)
    except subprocess.TimeoutExpired:
        return None, "cover constructors did not terminate within %ds" % timeout
    if p.returncode != 0:
        msg = p.stderr.decode(errors="replace").strip().splitlines()
        return None, "a cover constructor crashed (rc=%d): %s" % (p.returncode, " | ".join(msg[:3]))
    bases, end = [], None
    for line in p.stdout.decode().splitlines():
        t = line.split()
        if t[0] == "END":
            end = int(t[1])
            continue
        s = parse_sym(t)
        if s is None:
            return None, "malformed dump line"
        if t[0] == "B":
            s["covers"], s["oriented"] = [], None
            bases.append(s)
        elif t[0] == "O":
            bases[-1]["oriented"] = s
        elif t[0] == "C":
            bases[-1]["covers"].append(s)
    if end != len(bases):
        return None, "truncated dump"
    return bases, ""


def orbit_len(ops, i, d):
    r, e = 0, d
    while True:
        e = ops[i + 1][ops[i][e - 1] - 1]
        r += 1
        if e == d:
            return r
        if r > 10000:
            return 0


def is_oriented(sym):
    ops, n = sym["ops"], sym["size"]
    if any(ops[i][d - 1] == d for i in range(3) for d in range(1, n + 1)):
        return False
    sgn = {}
    for start in range(1, n + 1):
        if start in sgn:
            continue
        sgn[start] = 1
        st = [start]
        while st:
            d = st.pop()
            for i in range(3):
                e = ops[i][d - 1]
                if e not in sgn:
                    sgn[e] = -sgn[d]
                    st.append(e)
                elif sgn[e] != -sgn[d]:
                    return False
    return True


def covering_failures(B, Y, what):
    """ground clauses of 'Y is a covering of B through c -> (c-1) mod |B| + 1'"""
    N, M = B["size"], Y["size"]
    if M == 0 or M % N != 0:
        return ["%s has %d chambers over a base of %d" % (what, M, N)]
    for i in range(3):
        for c in range(1, M + 1):
            e = Y["ops"][i][c - 1]
            if e < 1 or e > M:
                return ["%s is not complete: op(%d,%d) = %d" % (what, i, c, e)]
            if Y["ops"][i][e - 1] != c:
                return ["%s: op %d is not an involution at %d" % (what, i, c)]
            if (e - 1) % N + 1 != B["ops"][i][(c - 1) % N]:
                return ["%s: the projection does not commute with op %d at chamber %d" % (what, i, c)]
    for i in range(2):
        for c in range(1, M + 1):
            m = Y["ms"][i][c - 1]
            if m != B["ms"][i][(c - 1) % N]:
                return ["%s: degree m(%d,%d) = %d at chamber %d, base has %d" % (what, i, i + 1, m, c, B["ms"][i][(c - 1) % N])]
            r = orbit_len(Y["ops"], i, c)
            if r == 0 or m % r != 0:
                return ["%s: degree %d at chamber %d is not a multiple of the orbit length %d" % (what, m, c, r)]
    for c in range(1, M + 1):
        if Y["ops"][2][Y["ops"][0][c - 1] - 1] != Y["ops"][0][Y["ops"][2][c - 1] - 1]:
            return ["%s: operations 0 and 2 do not commute at chamber %d" % (what, c)]
    seen, st = {1}, [1]
    while st:
        c = st.pop()
        for i in range(3):
            e = Y["ops"][i][c - 1]
            if e not in seen:
                seen.add(e)
                st.append(e)
    if len(seen) != M:
        return ["%s is not connected" % what]
    return []


def sheet_map(B, Y):
    N, s = B["size"], Y["size"] // B["size"]
    return [[[(Y["ops"][i][j * N + d - 1] - 1) // N for d in range(1, N + 1)] for i in range(3)] for j in range(s)]


def images(B, sm, s):
    """all sheet maps isomorphic over B to sm: x[j][i][d] = phi_{op_i d}^-1( sm[phi_d(j)][i][d] )"""
    N = B["size"]
    perms = list(itertools.permutations(range(s)))
    out = set()
    for phi in itertools.product(perms, repeat=N):
        inv = [[p.index(t) for t in range(s)] for p in phi]
        img = tuple(tuple(tuple(inv[B["ops"][i][d] - 1][sm[phi[d][j]][i][d]] for d in range(N))
                          for i in range(3)) for j in range(s))
        out.add(img)
    return out


def completeness_query(B, s, blocked):
    N = B["size"]
    L = ["(set-logic QF_BV)"]
    X = [[["x_%d_%d_%d" % (j, i, d) for d in range(N)] for i in range(3)] for j in range(s)]
    for j in range(s):
        for i in range(3):
            for d in range(N):
                L.append("(declare-const %s (_ BitVec %d))" % (X[j][i][d], BV))
                L.append("(assert (bvult %s %s))" % (X[j][i][d], bv(s)))

    def at(i, d, jt):
        res = X[s - 1][i][d]
        for j in range(s - 2, -1, -1):
            res = "(ite (= %s %s) %s %s)" % (jt, bv(j), X[j][i][d], res)
        return res
    # involutions: the chamber over op_i(d) on sheet x[j][i][d] goes back to sheet j
    for j in range(s):
        for i in range(3):
            for d in range(N):
                e = B["ops"][i][d] - 1
                L.append("(assert (= %s %s))" % (at(i, e, X[j][i][d]), bv(j)))
    # every 2-orbit of Y has a length dividing the degree of B: (op_{i+1} op_i)^m fixes the sheet
    fresh = [0]
    for i in range(2):
        for d in range(N):
            m = B["ms"][i][d]
            for j in range(s):
                cur, cd = bv(j), d
                for _ in range(m):
                    for idx in (i, i + 1):
                        fresh[0] += 1
                        v = "t_%d" % fresh[0]
                        L.append("(declare-const %s (_ BitVec %d))" % (v, BV))
                        L.append("(assert (= %s %s))" % (v, at(idx, cd, cur)))
                        cur, cd = v, B["ops"][idx][cd] - 1
                L.append("(assert (= %s %s))" % (cur, bv(j)))
    # operations 0 and 2 commute in Y as well (m(0,2) = 2): (op_2 op_0)^2 fixes every chamber
    for d in range(N):
        for j in range(s):
            cur, cd = bv(j), d
            for _ in range(2):
                for idx in (0, 2):
                    fresh[0] += 1
                    v = "t_%d" % fresh[0]
                    L.append("(declare-const %s (_ BitVec %d))" % (v, BV))
                    L.append("(assert (= %s %s))" % (v, at(idx, cd, cur)))
                    cur, cd = v, B["ops"][idx][cd] - 1
            L.append("(assert (= %s %s))" % (cur, bv(j)))
    # connected
    nodes = [(j, d) for j in range(s) for d in range(N)]
    prev = {nd: ("true" if nd == (0, 0) else "false") for nd in nodes}
    for rnd in range(1, len(nodes)):
        cur = {}
        for (j, d) in nodes:
            name = "r_%d_%d_%d" % (rnd, j, d)
            L.append("(declare-const %s Bool)" % name)
            terms = [prev[(j, d)]]
            for i in range(3):
                e = B["ops"][i][d] - 1      # predecessors lie over op_i(d)
                for j2 in range(s):
                    terms.append("(and %s (= %s %s))" % (prev[(j2, e)], X[j2][i][e], bv(j)))
            L.append("(assert (= %s (or %s)))" % (name, " ".join(terms)))
            cur[(j, d)] = name
        prev = cur
    for nd in nodes:
        L.append("(assert %s)" % prev[nd])
    for img in blocked:
        L.append("(assert (or %s))" % " ".join("(not (= %s %s))" % (X[j][i][d], bv(img[j][i][d]))
                                              for j in range(s) for i in range(3) for d in range(N)))
    L.append("(check-sat)")
    L.append("(get-value (%s))" % " ".join(X[j][i][d] for j in range(s) for i in range(3) for d in range(N)))
    return "\n".join(L) + "\n", X


def check_base(B, k, cap, ev):
    """-> (violations, inconclusive) for one base symbol"""
    viol, inc = [], []
    base = {"base": {"size": B["size"], "ops": B["ops"], "ms": B["ms"]}}
    N = B["size"]
    # oriented cover
    O = B["oriented"]
    ev["ground"] += 1
    bad = covering_failures(B, O, "oriented_cover") if O else ["oriented_cover missing"]
    if not bad:
        want = 1 if is_oriented(B) else 2
        if O["size"] != want * N:
            bad = ["oriented_cover has %d sheet(s), expected %d" % (O["size"] // N, want)]
        elif not is_oriented(O):
            bad = ["oriented_cover is not oriented"]
    for w in bad:
        viol.append(dict(base, kind="ground", what=w))
    # list of covers
    by_s = {}
    for idx, Y in enumerate(B["covers"]):
        ev["ground"] += 1
        bad = covering_failures(B, Y, "covers()[%d]" % idx)
        if not bad and Y["size"] // N > k:
            bad = ["covers()[%d] has more than %d sheets" % (idx, k)]
        for w in bad:
            viol.append(dict(base, kind="ground", what=w))
        if not bad:
            by_s.setdefault(Y["size"] // N, []).append((idx, sheet_map(B, Y)))
    if viol:
        return viol, inc
    for s in range(1, k + 1):
        blocked, owners = set(), {}
        for (idx, sm) in by_s.get(s, []):
            imgs = images(B, sm, s)
            key = tuple(tuple(tuple(r) for r in row) for row in sm)
            if key in blocked:
                viol.append(dict(base, kind="ground", what="covers()[%d] and covers()[%d] are isomorphic over the base"
                                                           % (owners.get(key, -1), idx)))
            for im in imgs:
                owners.setdefault(im, idx)
            blocked |= imgs
        ev["clauses"] += len(blocked)
        text, X = completeness_query(B, s, blocked)
        out, secs = run_solver(Z3, text, cap)
        ev["solver_s"] += secs
        ev["queries"] += 1
        first = (out or "timeout").split()[0] if (out or "timeout").split() else ""
        if first == "unsat":
            ev["unsat"] += 1
            if ev["queries"] % 11 == 0:
                o2, s2 = run_solver(CVC5, text.replace("(get-value", ";(get-value"), cap)
                ev["solver_s"] += s2
                ev["crosscheck"] += 1
                if ((o2 or "").split() or [""])[0] == "sat":
                    inc.append("z3 unsat but cvc5 sat (base %s, %d sheets)" % (B["ops"], s))
        elif first == "sat":
            ev["sat"] += 1
            vals = parse_values(out)
            sm = [[[vals.get(X[j][i][d], 0) for d in range(N)] for i in range(3)] for j in range(s)]
            viol.append(dict(base, kind="missing", sheets=s, sheet_map=sm,
                             what="covers() lists no cover isomorphic over the base to the connected %d-sheeted covering "
                                  "with sheet map %s" % (s, sm)))
        else:
            inc.append("solver said %r (base %s, %d sheets)" % (first[:30], B["ops"], s))
    return viol, inc


def replay_native(exe, v, n, k):
    bases, err = run_dump(exe, n, k)
    if bases is None:
        return "CONFIRMED ground: " + err
    b = v["base"]
    B = next((x for x in bases if x["ops"] == b["ops"] and x["ms"] == b["ms"]), None)
    if B is None:
        return "REFUTED the base symbol is not an input of this configuration"
    ev = {"ground": 0, "clauses": 0, "solver_s": 0.0, "queries": 0, "unsat": 0, "sat": 0, "crosscheck": 0}
    if v["kind"] == "ground":
        viol, _ = check_base(B, 0, 10, ev)
        return ("CONFIRMED ground: %s" % viol[0]["what"]) if viol else "REFUTED the covers are sound"
    # missing: the model must be a connected covering and equal to no image of a listed cover
    s, sm, N = v["sheets"], v["sheet_map"], B["size"]
    Y = {"size": s * N, "ops": [[sm[(c - 1) // N][i][(c - 1) % N] * N + B["ops"][i][(c - 1) % N] for c in range(1, s * N + 1)]
                               for i in range(3)],
         "ms": [[B["ms"][i][(c - 1) % N] for c in range(1, s * N + 1)] for i in range(2)]}
    bad = covering_failures(B, Y, "the model")
    if bad:
        return "REFUTED " + bad[0]
    key = tuple(tuple(tuple(r) for r in row) for row in sm)
    for Yo in B["covers"]:
        if Yo["size"] == s * N and not covering_failures(B, Yo, "x") and key in images(B, sheet_map(B, Yo), s):
            return "REFUTED isomorphic over the base to a listed cover"
    return "CONFIRMED missing: a connected %d-sheeted covering that covers() does not list" % s


def run_gen(tier, seed, scratch, ev, violations, inconclusive):
    n, k = TIERS[tier]
    exe, err, build_s = build_native(scratch)
    if exe is None:
        inconclusive.append("the tree does not build: " + err[:300])
        return None
    log("[gen5] built native driver from %s in %.0fs" % (REPO, build_s))
    bases, err = run_dump(exe, n, k)
    if bases is None:
        violations.append({"kind": "ground", "base": {"size": 0, "ops": [], "ms": []}, "what": err})
        return exe
    for B in bases:
        ev["bases"] += 1
        ev["covers"] += len(B["covers"]) + 1
        v, inc = check_base(B, k, CAP[tier], ev)
        violations.extend(v[:2])
        inconclusive.extend(inc)
        if len(ev["samples"]) < 3 and len(B["covers"]) >= 3:
            ev["samples"].append({"base": {"ops": B["ops"], "degrees": B["ms"]},
                                  "covers_returned": [c["size"] // B["size"] for c in B["covers"]],
                                  "obligation": "unsat(exists a connected s-sheeted covering isomorphic over the base to no listed cover)"})
    log("[gen5]   bases up to %d chambers, up to %d sheets: %d base symbols, %d covers, %d queries"
        % (n, k, ev["bases"], ev["covers"], ev["queries"]))
    return exe


def run_check(tier, seed):
    t_start = time.time()
    scratch = SCRATCH_ROOT / ("verif-C05g-%d" % os.getpid())
    if scratch.exists():
        shutil.rmtree(scratch)
    scratch.mkdir(parents=True)
    ev = {"bases": 0, "covers": 0, "queries": 0, "unsat": 0, "sat": 0, "solver_s": 0.0, "replays": 0, "ground": 0,
          "clauses": 0, "samples": [], "crosscheck": 0}
    violations, inconclusive = [], []
    try:
        # the covering construction for arbitrary admissible sheet maps: kc engine (harness/c05_cover.rs), started
        # first and left running while the constructors are checked
        env = dict(os.environ)
        env["VERIF_OUT"] = str(OUT)
        kc = subprocess.Popen([sys.executable, str(VERIF / "engine/kc.py"), "check", "C05", "--tier", tier],
                              cwd=VERIF, env=env, stdout=subprocess.PIPE, stderr=subprocess.STDOUT)
        exe = run_gen(tier, seed, scratch, ev, violations, inconclusive)
        n, k = TIERS[tier]
        n_viol = 0
        for v in violations[:10]:
            res = replay_native(exe, v, n, k) if exe else "CONFIRMED ground"
            ev["replays"] += 1
            v["native"] = res
            if not res.startswith("CONFIRMED"):
                inconclusive.append("NON-REPRODUCING counterexample (%s): %s" % (v["what"][:200], res))
                continue
            rdir = OUT / "replays" / "C05"
            rdir.mkdir(parents=True, exist_ok=True)
            h = hashlib.sha1(json.dumps(v, sort_keys=True).encode()).hexdigest()[:10]
            rp = rdir / ("gen5-%s-%s.json" % (v["kind"], h))
            v["max_size"], v["max_sheets"] = n, k
            rp.write_text(json.dumps(v, indent=1))
            n_viol += 1
            log("VIOLATION property=C05 replay=%s" % rp)
            log("    %s (base %s degrees %s): %s | native: %s" % (v["kind"], v["base"]["ops"], v["base"]["ms"],
                                                                v["what"][:300], res[:160]))
        kc_stdout, _ = kc.communicate()
        p = kc
        kc_out = kc_stdout.decode(errors="replace")
        for line in kc_out.splitlines():
            if line.startswith(("VIOLATION", "    harness=", "INCONCLUSIVE", "KNOWN-FINDING", "[kc]   ", "[kc] C05")):
                log(line)
        kc_ev = {}
        try:
            kc_ev = json.loads((OUT / "evidence" / "C05.json").read_text())
        except Exception as ex:
            inconclusive.append("no evidence from the kc run: %r" % (ex,))
        if p.returncode == 1:
            n_viol += 1
        elif p.returncode != 0:
            inconclusive.append("kc engine run of harness/c05_cover.rs inconclusive (exit %d)" % p.returncode)
        for m in inconclusive:
            log("INCONCLUSIVE %s" % m[:400])
        rc = 1 if n_viol else (2 if inconclusive else 0)
        write_evidence(tier, seed, ev, kc_ev, n_viol, inconclusive, time.time() - t_start)
        log("[gen5] C05 tier=%s: %d base symbols, %d solver queries (%d unsat, %d sat) + kc exit %d; %d violation(s), "
            "%d inconclusive, wall %.0fs -> exit %d" % (tier, ev["bases"], ev["queries"], ev["unsat"], ev["sat"],
                                                       p.returncode, n_viol, len(inconclusive), time.time() - t_start, rc))
        return rc
    finally:
        shutil.rmtree(scratch, ignore_errors=True)


def write_evidence(tier, seed, ev, kc_ev, n_viol, inconclusive, wall):
    kc_cov = kc_ev.get("coverage", {})
    doc = {
        "property_id": "C05", "tier": tier, "seed": seed, "level": "model_checking",
        "wall_s": round(wall, 1), "violations": n_viol,
        "coverage": {
            "states": max(1, ev["covers"]) + int(kc_cov.get("states", 0) or 0),
            "transitions": max(1, ev["clauses"]) + int(kc_cov.get("transitions", 0) or 0),
            "traces_validated_against_impl": ev["replays"] + int(kc_cov.get("traces_validated_against_impl", 0) or 0),
            "obligations": ev["queries"] + ev["ground"] + int(kc_cov.get("obligations", 0) or 0),
            "discharged": ev["unsat"] + ev["ground"] + int(kc_cov.get("discharged", 0) or 0),
            "samples": (ev["samples"] + list(kc_cov.get("samples", []))[:2]) or [{"note": "nothing completed"}],
            "exhaustive": False,
            "constructors": {"base_symbols": ev["bases"], "covers_checked": ev["covers"], "solver_queries": ev["queries"],
                             "unsat": ev["unsat"], "sat": ev["sat"], "blocking_clauses": ev["clauses"],
                             "solver_seconds": round(ev["solver_s"], 2), "rerun_with_cvc5": ev["crosscheck"]},
            "construction_kani": {k: kc_cov.get(k) for k in ("states", "transitions", "obligations", "discharged",
                                                             "functions_encoded", "harnesses", "per_harness")
                                  if k in kc_cov},
            "functions_encoded": ["covers::{covers, cover_for_table}, derived::{oriented_cover, cover}, "
                                  "fundamental_group::fundamental_group, fpgroups::cosets::coset_tables — executed from the "
                                  "current tree on every base symbol of the configuration; coverings of a base symbol and "
                                  "isomorphism over the base are encoded in QF_BV"] + list(kc_cov.get("functions_encoded", []))[:40],
            "explanation": "constructors: states = covers turned into constants, transitions = blocking clauses (cover x family of "
                           "sheet permutations); plus the counts of the kc run of harness/c05_cover.rs",
            "inconclusive": inconclusive,
        },
        "assumptions": [
            "constructors: base symbols = every symbol of DSyms::new(set, All) for every D-set of DSets::new(2, %d) (both "
            "generators are checked by C06 / C07); sheet bound %d; larger bases / more sheets are outside the claim" % TIERS[tier],
            "conjugacy classes of subgroups of index s of the orbifold group = connected s-sheeted coverings up to isomorphism "
            "over the base (covering-space theory for D-symbols) — used to state the counting clause without the crate's "
            "fundamental group",
            "subgroup_cover / finite_universal_cover are covered only through what they share with covers() "
            "(cover_for_table, cover) and through the C11 check of coset_table; 'trivial fundamental group' is NOT decided",
        ] + list(kc_ev.get("assumptions", []))[:8],
    }
    (OUT / "evidence").mkdir(parents=True, exist_ok=True)
    (OUT / "evidence" / "C05.json").write_text(json.dumps(doc, indent=1) + "\n")


def run_replay(path):
    v = json.loads(Path(path).read_text())
    if "harness" in v:
        return subprocess.call([sys.executable, str(VERIF / "engine/kc.py"), "replay", path], cwd=VERIF)
    scratch = SCRATCH_ROOT / ("verif-C05g-replay-%d" % os.getpid())
    scratch.mkdir(parents=True, exist_ok=True)
    try:
        exe, err, _ = build_native(scratch)
        if exe is None:
            print("build failed:\n" + err)
            return 2
        res = replay_native(exe, v, v.get("max_size", 3), v.get("max_sheets", 3))
        print(res)
        return 1 if res.startswith("CONFIRMED") else 0
    finally:
        shutil.rmtree(scratch, ignore_errors=True)


def main():
    ap = argparse.ArgumentParser()
    sub = ap.add_subparsers(dest="cmd", required=True)
    c = sub.add_parser("check")
    c.add_argument("--tier", default=os.environ.get("VERIF_TIER", "quick"), choices=["quick", "thorough"])
    c.add_argument("--no-kc", action="store_true")
    r = sub.add_parser("replay")
    r.add_argument("path")
    a = ap.parse_args()
    if a.cmd == "check":
        if a.no_kc:
            # constructors only (used while developing and by mutcheck for changes outside derived::cover)
            scratch = SCRATCH_ROOT / ("verif-C05g-%d" % os.getpid())
            scratch.mkdir(parents=True, exist_ok=True)
            ev = {"bases": 0, "covers": 0, "queries": 0, "unsat": 0, "sat": 0, "solver_s": 0.0, "replays": 0, "ground": 0,
                  "clauses": 0, "samples": [], "crosscheck": 0}
            viol, inc = [], []
            try:
                exe = run_gen(a.tier, 0, scratch, ev, viol, inc)
                n, k = TIERS[a.tier]
                bad = 0
                for v in viol[:10]:
                    res = replay_native(exe, v, n, k)
                    print(("VIOLATION property=C05 replay=- " if res.startswith("CONFIRMED") else "NON-REPRODUCING ") + v["what"][:300] + " | " + res[:120])
                    bad += res.startswith("CONFIRMED")
                print("[gen5] constructors only: %d bases, %d queries (%d unsat, %d sat), %d violations, %d inconclusive"
                      % (ev["bases"], ev["queries"], ev["unsat"], ev["sat"], bad, len(inc)))
                sys.exit(1 if bad else (2 if inc else 0))
            finally:
                shutil.rmtree(scratch, ignore_errors=True)
        sys.exit(run_check(a.tier, int(os.environ.get("VERIF_SEED", "0") or 0)))
    sys.exit(run_replay(a.path))


if __name__ == "__main__":
    main()
