#!/usr/bin/env python3
"""gen9 — check of property C09 (the returned presentation presents the orbifold fundamental group)
on every 2D D-symbol of a bounded universe.

    gen9.py check [--tier quick|thorough]
    gen9.py replay <replay.json>

For every symbol B the (C07-checked) D-symbol generator yields on the 2D D-sets with at most n
chambers, the real `fundamental_group(B)`, built from the CURRENT tree, is run; its relators,
generator edges and edge words become constants.  "P presents the orbifold group of B" is decided
through permutation representations of degree s <= k, which is what the property itself proposes
(equal numbers of subgroup classes of each small index) made exact: the s-sheeted coverings of B
(sheet maps x[j][i][d], as in gen5.py) and the actions of <P> on s points must correspond through
the edge words.  Per symbol and s, by z3 (QF_BV):

  (A) every action is a covering:   unsat( X = nr_gens symbolic permutations of s points, every relator
      fixes every point, AND the sheet map x[j][i][d] := j . word(d,i) is NOT admissible )
      admissible = every operation of the cover an involution, (op_{i+1} op_i)^m(B) and (op_2 op_0)^2
      fix every sheet (degrees preserved);
  (B) every covering is an action:  unsat( x admissible, x[j][i][d] = j on every edge whose word is empty
      (sheets transported along the spanning tree), X the permutations read off x at the generator edges,
      AND ( a relator moves a point  OR  some edge word does not reproduce x ) )
  (V) the premises of (B) are satisfiable (vacuity guard).

Ground, per symbol: every generator sits on exactly one facet pair and its two sides carry mutually
inverse words (a mirror facet: the same letter up to sign); every word and relator is freely reduced
with letters in -n..n; every cone word is freely reduced and its degree > 1.
NOT decided: 3D symbols, representations of degree > k, the exact cone list.
Exit 0 / 1 (VIOLATION, re-evaluated natively) / 2 (inconclusive).
"""
import argparse
import hashlib
import json
import os
import shutil
import subprocess
import sys
import time
from pathlib import Path

sys.path.insert(0, str(Path(__file__).resolve().parent))
from gen6 import run_solver, Z3, parse_values, log, ENV, VERIF, REPO, OUT, SCRATCH_ROOT, CACHE  # noqa

TIERS = {"quick": (4, 3, 3), "thorough": (5, 3, 4)}      # (max chambers, max degree, renumber symbols up to this size)
CAP = {"quick": 120, "thorough": 900}
BV = 3
CVC5 = ["cvc5", "--lang", "smt2", "--produce-models"]


def bv(x):
    return "(_ bv%d %d)" % (x, BV)


def build_native(scratch):
    repo = scratch / "repo"
    subprocess.check_call(["rsync", "-a", "--delete", "--exclude", "/target", "--exclude", "/.git",
                           str(REPO) + "/", str(repo) + "/"])
    (repo / "examples").mkdir(exist_ok=True)
    shutil.copy(VERIF / "native/verif_c09.rs", repo / "examples/verif_c09.rs")
    target = scratch / "target"
    src = CACHE / "native-target"
    if src.exists():
        subprocess.call(["cp", "-a", "--reflink=auto", str(src), str(target)])
    t0 = time.time()
    p = subprocess.run(["cargo", "build", "--offline", "--release", "--example", "verif_c09",
                        "--target-dir", str(target)], cwd=repo, env=ENV, stdout=subprocess.PIPE, stderr=subprocess.STDOUT)
    if p.returncode != 0:
        errs = [l for l in p.stdout.decode(errors="replace").splitlines() if l.startswith("error")]
        return None, "\n".join(errs[:10]), time.time() - t0
    return target / "release/examples/verif_c09", "", time.time() - t0


def run_dump(exe, n, renum=0, timeout=900):
    try:
        p = subprocess.run([str(exe), "dump", str(n), str(renum)], stdout=subprocess.PIPE, stderr=subprocess.PIPE, timeout=timeout)
    except subprocess.TimeoutExpired:
        return None, "fundamental_group did not terminate within %ds" % timeout
    if p.returncode != 0:
        msg = p.stderr.decode(errors="replace").strip().splitlines()
        return None, "fundamental_group crashed (rc=%d): %s" % (p.returncode, " | ".join(msg[:3]))
    syms, end = [], None
    for line in p.stdout.decode().splitlines():
        t = line.split()
        if not t:
            continue
        if t[0] == "B":
            size = int(t[1])
            flat = [int(x) for x in t[2:]]
            syms.append({"size": size, "ops": [flat[i * size:(i + 1) * size] for i in range(3)],
                         "ms": [flat[3 * size + i * size:3 * size + (i + 1) * size] for i in range(2)],
                         "n": 0, "rels": [], "gens": {}, "words": {}, "cones": []})
        elif t[0] == "P":
            syms[-1]["n"] = int(t[1])
        elif t[0] == "R":
            syms[-1]["rels"] = [[int(x) for x in w.split()] for w in line[2:].split(";") if w.strip()]
        elif t[0] == "G":
            syms[-1]["gens"][int(t[1])] = (int(t[2]), int(t[3]))
        elif t[0] == "E":
            syms[-1]["words"][(int(t[1]), int(t[2]))] = [int(x) for x in t[3:]]
        elif t[0] == "K":
            syms[-1]["cones"].append((int(t[1]), [int(x) for x in t[2:]]))
        elif t[0] == "END":
            end = int(t[1])
    if end != len(syms):
        return None, "truncated dump"
    return syms, ""


def reduced(w, n):
    return all(l != 0 and abs(l) <= n for l in w) and all(w[k] != -w[k + 1] for k in range(len(w) - 1))


def ground(S):
    bad = []
    n, N = S["n"], S["size"]
    if sorted(S["gens"]) != list(range(1, n + 1)):
        return ["generators are not numbered 1..%d: %s" % (n, sorted(S["gens"]))]
    for g, (d, i) in S["gens"].items():
        if not (1 <= d <= N and 0 <= i <= 2):
            bad.append("generator %d sits on a non-existent edge (%d,%d)" % (g, d, i))
            continue
        w = S["words"].get((d, i), [])
        e = S["ops"][i][d - 1]
        w2 = S["words"].get((e, i), [])
        if w not in ([g], [-g]):
            bad.append("the edge (%d,%d) of generator %d carries the word %s" % (d, i, g, w))
        elif e != d and w2 != [-x for x in reversed(w)]:
            bad.append("the two sides of the facet of generator %d carry %s and %s, not mutually inverse" % (g, w, w2))
    carriers = {}
    for (d, i), w in S["words"].items():
        if len(w) == 1:
            carriers.setdefault(abs(w[0]), set()).add(frozenset({d, S["ops"][i][d - 1]}) | frozenset({("i", i)}))
    for (d, i), w in S["words"].items():
        if not reduced(w, n):
            bad.append("the word %s of edge (%d,%d) is not freely reduced over %d generators" % (w, d, i, n))
        e = S["ops"][i][d - 1]
        if e != d and S["words"].get((e, i), []) != [-x for x in reversed(w)]:
            bad.append("the words on the two sides of the facet (%d,%d) are not mutually inverse" % (d, i))
    for w in S["rels"]:
        if not reduced(w, n) or not w:
            bad.append("relator %s is not a freely reduced non-empty word" % w)
    for deg, w in S["cones"]:
        if deg <= 1 or not reduced(w, n):
            bad.append("cone (%s, %d) is malformed" % (w, deg))
    return bad


class Enc:
    """shared pieces of the two queries for one symbol and degree s"""

    def __init__(self, S, s):
        self.S, self.s, self.N, self.n = S, s, S["size"], S["n"]
        self.L = ["(set-logic QF_BV)"]
        self.fresh = 0
        self.X = [["g_%d_%d" % (g, p) for p in range(s)] for g in range(self.n)]
        for g in range(self.n):
            for p in range(s):
                self.L.append("(declare-const %s (_ BitVec %d))" % (self.X[g][p], BV))
                self.L.append("(assert (bvult %s %s))" % (self.X[g][p], bv(s)))
            if s > 1:
                self.L.append("(assert (distinct %s))" % " ".join(self.X[g]))

    def new(self, term):
        self.fresh += 1
        v = "t_%d" % self.fresh
        self.L.append("(declare-const %s (_ BitVec %d))" % (v, BV))
        self.L.append("(assert (= %s %s))" % (v, term))
        return v

    def letter(self, cur, l):
        g, s = abs(l) - 1, self.s
        if l > 0:
            res = self.X[g][s - 1]
            for p in range(s - 2, -1, -1):
                res = "(ite (= %s %s) %s %s)" % (cur, bv(p), self.X[g][p], res)
        else:
            res = bv(s - 1)
            for p in range(s - 2, -1, -1):
                res = "(ite (= %s %s) %s %s)" % (self.X[g][p], cur, bv(p), res)
        return self.new(res)

    def trace(self, start, w):
        cur = start
        for l in w:
            cur = self.letter(cur, l)
        return cur

    def relators_hold(self):
        """list of Bool terms, one per (relator, point)"""
        return ["(= %s %s)" % (self.trace(bv(p), w), bv(p)) for w in self.S["rels"] for p in range(self.s)]

    def admissible(self, at):
        """at(i, d0, sheet_term) -> sheet term of op_i applied to (sheet, chamber d0 (0-based)); list of Bool terms"""
        S, s, N = self.S, self.s, self.N
        conds = []
        for j in range(s):
            for i in range(3):
                for d in range(N):
                    e = S["ops"][i][d] - 1
                    conds.append("(= %s %s)" % (at(i, e, at(i, d, bv(j))), bv(j)))
        for (pair, m_of) in (((0, 1), lambda d: S["ms"][0][d]), ((1, 2), lambda d: S["ms"][1][d]), ((0, 2), lambda d: 2)):
            for d in range(N):
                for j in range(s):
                    cur, cd = bv(j), d
                    for _ in range(m_of(d)):
                        for idx in pair:
                            cur = self.new(at(idx, cd, cur))
                            cd = S["ops"][idx][cd] - 1
                    conds.append("(= %s %s)" % (cur, bv(j)))
        return conds


def query_A(S, s):
    E = Enc(S, s)
    for c in E.relators_hold():
        E.L.append("(assert %s)" % c)

    def at(i, d, sheet):
        return E.trace(sheet, S["words"].get((d + 1, i), []))
    conds = E.admissible(at)
    E.L.append("(assert (not (and true %s)))" % " ".join(conds))
    E.L.append("(check-sat)")
    E.L.append("(get-value (%s))" % " ".join(x for row in E.X for x in row))
    return "\n".join(E.L) + "\n", E


def query_B(S, s, vacuity=False):
    E = Enc(S, s)
    N = S["size"]
    x = [[["x_%d_%d_%d" % (j, i, d) for d in range(N)] for i in range(3)] for j in range(s)]
    for j in range(s):
        for i in range(3):
            for d in range(N):
                E.L.append("(declare-const %s (_ BitVec %d))" % (x[j][i][d], BV))
                E.L.append("(assert (bvult %s %s))" % (x[j][i][d], bv(s)))

    def at(i, d, sheet):
        res = x[s - 1][i][d]
        for j in range(s - 2, -1, -1):
            res = "(ite (= %s %s) %s %s)" % (sheet, bv(j), x[j][i][d], res)
        return res
    for c in E.admissible(at):
        E.L.append("(assert %s)" % c)
    # sheets are transported along the edges whose word is empty
    for d in range(N):
        for i in range(3):
            if not S["words"].get((d + 1, i), []):
                for j in range(s):
                    E.L.append("(assert (= %s %s))" % (x[j][i][d], bv(j)))
    # the permutations are read off x at the generator edges
    for g, (d, i) in S["gens"].items():
        w = S["words"].get((d, i), [])
        for j in range(s):
            E.L.append("(assert (= %s %s))" % (E.trace(bv(j), w), x[j][i][d - 1]))
    if not vacuity:
        viol = ["(not %s)" % c for c in E.relators_hold()]
        for d in range(N):
            for i in range(3):
                w = S["words"].get((d + 1, i), [])
                for j in range(s):
                    viol.append("(not (= %s %s))" % (E.trace(bv(j), w), x[j][i][d]))
        E.L.append("(assert (or false %s))" % " ".join(viol))
    E.L.append("(check-sat)")
    names = [x[j][i][d] for j in range(s) for i in range(3) for d in range(N)] + [v for row in E.X for v in row]
    E.L.append("(get-value (%s))" % " ".join(names))
    return "\n".join(E.L) + "\n", E, x


def check_symbol(S, k, cap, ev):
    viol, inc = [], []
    base = {"symbol": {"size": S["size"], "ops": S["ops"], "ms": S["ms"]}, "presentation": {"n": S["n"], "relators": S["rels"]}}
    ev["ground"] += 1
    bad = ground(S)
    for w in bad[:2]:
        viol.append(dict(base, kind="ground", what=w))
    if bad or S["n"] == 0 and not S["rels"] and False:
        return viol, inc
    for s in range(1, k + 1):
        for kind in ("A", "B", "V"):
            if kind == "A":
                text, E = query_A(S, s)
            elif kind == "B":
                text, E, x = query_B(S, s)
            else:
                text, E, x = query_B(S, s, vacuity=True)
            out, secs = run_solver(Z3, text, cap)
            ev["solver_s"] += secs
            ev["queries"] += 1
            first = (out or "timeout").split()[0] if (out or "timeout").split() else ""
            want = "sat" if kind == "V" else "unsat"
            if first == want:
                ev["unsat" if want == "unsat" else "guards"] += 1
                if want == "unsat" and ev["queries"] % 13 == 0:
                    o2, s2 = run_solver(CVC5, text.replace("(get-value", ";(get-value"), cap)
                    ev["solver_s"] += s2
                    ev["crosscheck"] += 1
                    if ((o2 or "").split() or [""])[0] == "sat":
                        inc.append("z3 unsat but cvc5 sat (%s, degree %d, symbol %s)" % (kind, s, S["ops"]))
            elif first in ("sat", "unsat"):
                if kind == "V":
                    inc.append("VACUOUS: no normalised covering with %d sheets satisfies the premises (symbol %s)" % (s, S["ops"]))
                else:
                    ev["sat"] += 1
                    vals = parse_values(out)
                    model = {k2: v2 for k2, v2 in vals.items()}
                    what = ("an action of the presentation on %d points whose sheet map is not a covering of the symbol"
                            if kind == "A" else
                            "a %d-sheeted covering of the symbol that the presentation's edge words do not reproduce / whose "
                            "permutations violate a relator") % s
                    viol.append(dict(base, kind=kind, degree=s, model=model, what=what))
            else:
                inc.append("solver said %r (%s, degree %d, symbol %s)" % (first[:30], kind, s, S["ops"]))
    return viol, inc


def evaluate_model(S, v):
    """exact re-evaluation of a solver model against the dumped presentation (no solver)"""
    s, n, N = v["degree"], S["n"], S["size"]
    m = v["model"]
    X = [[m.get("g_%d_%d" % (g, p), 0) for p in range(s)] for g in range(n)]
    if any(sorted(row) != list(range(s)) for row in X):
        return "REFUTED the model's generators are not permutations"

    def tr(j, w):
        for l in w:
            j = X[abs(l) - 1][j] if l > 0 else X[abs(l) - 1].index(j)
        return j
    rel_ok = all(tr(p, w) == p for w in S["rels"] for p in range(s))
    if v["kind"] == "A":
        sm = [[[tr(j, S["words"].get((d + 1, i), [])) for d in range(N)] for i in range(3)] for j in range(s)]
    else:
        sm = [[[m.get("x_%d_%d_%d" % (j, i, d), 0) for d in range(N)] for i in range(3)] for j in range(s)]

    def at(i, d, j):
        return sm[j][i][d]
    adm = True
    for j in range(s):
        for i in range(3):
            for d in range(N):
                if at(i, S["ops"][i][d] - 1, at(i, d, j)) != j:
                    adm = False
    for (pair, mf) in (((0, 1), lambda d: S["ms"][0][d]), ((1, 2), lambda d: S["ms"][1][d]), ((0, 2), lambda d: 2)):
        for d in range(N):
            for j in range(s):
                cur, cd = j, d
                for _ in range(mf(d)):
                    for idx in pair:
                        cur, cd = at(idx, cd, cur), S["ops"][idx][cd] - 1
                if cur != j:
                    adm = False
    if v["kind"] == "A":
        if rel_ok and not adm:
            return "CONFIRMED: the permutations %s satisfy every relator but their sheet map is not a covering" % X
        return "REFUTED relators hold: %s, covering: %s" % (rel_ok, adm)
    repro = all(tr(j, S["words"].get((d + 1, i), [])) == sm[j][i][d] for j in range(s) for i in range(3) for d in range(N))
    if adm and (not rel_ok or not repro):
        return "CONFIRMED: the covering with sheet map %s gives permutations %s: relators hold %s, edge words reproduce it %s" % (sm, X, rel_ok, repro)
    return "REFUTED covering: %s, relators hold: %s, reproduced: %s" % (adm, rel_ok, repro)


def replay_native(exe, v, n, renum=4):
    syms, err = run_dump(exe, n, renum)
    if syms is None:
        return "CONFIRMED ground: " + err
    b = v["symbol"]
    S = next((x for x in syms if x["ops"] == b["ops"] and x["ms"] == b["ms"]), None)
    if S is None:
        return "REFUTED the symbol is not an input of this configuration"
    if v["kind"] == "ground":
        bad = ground(S)
        return ("CONFIRMED ground: %s" % bad[0]) if bad else "REFUTED the presentation is well formed"
    return evaluate_model(S, v)


def run_check(tier, seed):
    t_start = time.time()
    scratch = SCRATCH_ROOT / ("verif-C09-%d" % os.getpid())
    if scratch.exists():
        shutil.rmtree(scratch)
    scratch.mkdir(parents=True)
    n, k, renum = TIERS[tier]
    ev = {"symbols": 0, "queries": 0, "unsat": 0, "sat": 0, "guards": 0, "solver_s": 0.0, "replays": 0, "ground": 0,
          "samples": [], "crosscheck": 0, "relators": 0}
    violations, inconclusive = [], []
    try:
        exe, err, build_s = build_native(scratch)
        if exe is None:
            log("[gen9] INCONCLUSIVE: the tree does not build:\n" + err)
            write_evidence(tier, seed, ev, 0, ["build failed"], time.time() - t_start)
            return 2
        log("[gen9] built native driver from %s in %.0fs" % (REPO, build_s))
        syms, err = run_dump(exe, n, renum)
        if syms is None:
            violations.append({"kind": "ground", "symbol": {"size": 0, "ops": [], "ms": []}, "what": err})
            syms = []
        for S in syms:
            ev["symbols"] += 1
            ev["relators"] += len(S["rels"])
            v, inc = check_symbol(S, k, CAP[tier], ev)
            violations.extend(v[:2])
            inconclusive.extend(inc)
            if len(ev["samples"]) < 3 and S["size"] >= 2:
                ev["samples"].append({"symbol": {"ops": S["ops"], "degrees": S["ms"]}, "generators": S["n"],
                                      "relators": S["rels"], "edge_words": {"%d,%d" % e: w for e, w in S["words"].items()},
                                      "obligation": "unsat(action of the presentation whose sheet map is not a covering); "
                                                    "unsat(covering that the edge words do not reproduce)"})
        log("[gen9]   symbols on D-sets up to %d chambers: %d, representations up to degree %d, %d queries"
            % (n, ev["symbols"], k, ev["queries"]))
        n_viol = 0
        for v in violations[:10]:
            res = replay_native(exe, v, n, renum)
            ev["replays"] += 1
            v["native"] = res
            if not res.startswith("CONFIRMED"):
                inconclusive.append("NON-REPRODUCING counterexample (%s): %s" % (v["what"][:200], res[:200]))
                continue
            rdir = OUT / "replays" / "C09"
            rdir.mkdir(parents=True, exist_ok=True)
            v["max_size"] = n
            h = hashlib.sha1(json.dumps(v, sort_keys=True).encode()).hexdigest()[:10]
            rp = rdir / ("%s-%s.json" % (v["kind"], h))
            rp.write_text(json.dumps(v, indent=1))
            n_viol += 1
            log("VIOLATION property=C09 replay=%s" % rp)
            log("    %s (symbol %s degrees %s): %s | %s" % (v["kind"], v["symbol"]["ops"], v["symbol"]["ms"], v["what"][:200], res[:300]))
        for m in inconclusive:
            log("INCONCLUSIVE %s" % m[:400])
        rc = 1 if n_viol else (2 if inconclusive else 0)
        write_evidence(tier, seed, ev, n_viol, inconclusive, time.time() - t_start)
        log("[gen9] C09 tier=%s: %d symbols, %d solver queries (%d unsat, %d vacuity guards sat, %d counterexamples), "
            "%d violation(s), %d inconclusive, wall %.0fs -> exit %d"
            % (tier, ev["symbols"], ev["queries"], ev["unsat"], ev["guards"], ev["sat"], n_viol, len(inconclusive),
               time.time() - t_start, rc))
        return rc
    finally:
        shutil.rmtree(scratch, ignore_errors=True)


def write_evidence(tier, seed, ev, n_viol, inconclusive, wall):
    doc = {
        "property_id": "C09", "tier": tier, "seed": seed, "level": "model_checking",
        "wall_s": round(wall, 1), "violations": n_viol,
        "coverage": {
            "states": max(1, ev["symbols"]),
            "transitions": max(1, ev["relators"]),
            "traces_validated_against_impl": ev["replays"],
            "obligations": ev["queries"] + ev["ground"],
            "discharged": ev["unsat"] + ev["guards"] + ev["ground"],
            "samples": ev["samples"] or [{"note": "no symbol completed"}],
            "exhaustive": False,
            "symbols": ev["symbols"], "solver_queries": ev["queries"], "unsat": ev["unsat"], "vacuity_guards_sat": ev["guards"],
            "counterexamples": ev["sat"], "solver_seconds": round(ev["solver_s"], 2), "rerun_with_cvc5": ev["crosscheck"],
            "functions_encoded": ["fundamental_group::{fundamental_group, find_generators, trace_word, Boundary::*, "
                                  "spanning_tree} — executed from the current tree on every symbol of the configuration; "
                                  "permutation representations of the presentation and coverings of the symbol are encoded "
                                  "in QF_BV and related through the returned edge words"],
            "explanation": "states = symbols whose presentation became constants; transitions = relators",
            "inconclusive": inconclusive,
        },
        "assumptions": [
            "inputs: every symbol of DSyms::new(set, All) for every D-set of DSets::new(2, %d) (generators checked by C06 / C07); "
            "permutation representations / coverings of degree at most %d; symbols with at most %d chambers also in every renumbering "
            "of their chambers (the construction follows the numbering)" % TIERS[tier],
            "a presentation with edge words presents the orbifold group iff, for every degree, its permutation representations are "
            "exactly the coverings of the symbol with sheets transported along the spanning tree — decided here for small degrees "
            "only; this is the property's own proposal (subgroup counts of small index) made exact",
            "NOT decided: 3D symbols, larger degrees, the exact cone list",
        ],
    }
    (OUT / "evidence").mkdir(parents=True, exist_ok=True)
    (OUT / "evidence" / "C09.json").write_text(json.dumps(doc, indent=1) + "\n")


def run_replay(path):
    v = json.loads(Path(path).read_text())
    scratch = SCRATCH_ROOT / ("verif-C09-replay-%d" % os.getpid())
    scratch.mkdir(parents=True, exist_ok=True)
    try:
        exe, err, _ = build_native(scratch)
        if exe is None:
            print("build failed:\n" + err)
            return 2
        res = replay_native(exe, v, v.get("max_size", 3))
        print(res)
        return 1 if res.startswith("CONFIRMED") else 0
    finally:
        shutil.rmtree(scratch, ignore_errors=True)


def main():
    ap = argparse.ArgumentParser()
    sub = ap.add_subparsers(dest="cmd", required=True)
    c = sub.add_parser("check")
    c.add_argument("--tier", default=os.environ.get("VERIF_TIER", "quick"), choices=["quick", "thorough"])
    r = sub.add_parser("replay")
    r.add_argument("path")
    a = ap.parse_args()
    if a.cmd == "check":
        sys.exit(run_check(a.tier, int(os.environ.get("VERIF_SEED", "0") or 0)))
    sys.exit(run_replay(a.path))


if __name__ == "__main__":
    main()
