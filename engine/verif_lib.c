// verif_lib.c — Kani's kani_lib.c (0.68.0) with the allocator replaced by a
// fixed-block, grow-in-place model (DESIGN.md §3.2).
//
//  * every allocation is one object of exactly VERIF_BLOCK bytes;
//  * a request larger than VERIF_BLOCK fails the assertion "VERIF_BOUND ..."
//    (the run is then *inconclusive*, never a pass and never a violation);
//  * realloc never moves a buffer.
//
// VERIF_BLOCK is passed on the goto-cc command line (-DVERIF_BLOCK=n).
#include <stddef.h>
#include <stdint.h>

void  free(void *ptr);
void *memcpy(void *dst, const void *src, size_t n);
void *calloc(size_t nmemb, size_t size);
void *malloc(size_t size);

#ifndef VERIF_BLOCK
#define VERIF_BLOCK 128
#endif
// optional second size class: requests of at most VERIF_SMALL bytes get a block
// of exactly VERIF_SMALL bytes (default: one class only). Request sizes are
// almost always constants after constant propagation, so the choice is made
// during symbolic execution; a symbolic size keeps both classes alive.
#ifndef VERIF_SMALL
#define VERIF_SMALL VERIF_BLOCK
#endif

struct Unit;
extern struct Unit VoidUnit;

#define __KANI_assert(cond, msg)            \
    do {                                    \
        __CPROVER_bool __KANI_temp = (cond);          \
        __CPROVER_assert(__KANI_temp, msg); \
        __CPROVER_assume(__KANI_temp);      \
    } while (0)

__CPROVER_bool __KANI_is_nonzero_power_of_two(size_t i) { return (i != 0) && (i & (i - 1)) == 0; }

uint8_t *__rust_alloc(size_t size, size_t align)
{
    __KANI_assert(size > 0, "__rust_alloc must be called with a size greater than 0");
    __KANI_assert(__KANI_is_nonzero_power_of_two(align), "Alignment is power of two");
    __KANI_assert(size <= VERIF_BLOCK, "VERIF_BOUND allocation request exceeds VERIF_BLOCK");
    if (VERIF_SMALL < VERIF_BLOCK && size <= VERIF_SMALL)
        return malloc(VERIF_SMALL);
    return malloc(VERIF_BLOCK);
}

uint8_t *__rust_alloc_zeroed(size_t size, size_t align)
{
    __KANI_assert(size > 0, "__rust_alloc_zeroed must be called with a size greater than 0");
    __KANI_assert(__KANI_is_nonzero_power_of_two(align), "Alignment is power of two");
    __KANI_assert(size <= VERIF_BLOCK, "VERIF_BOUND zeroed allocation request exceeds VERIF_BLOCK");
    if (VERIF_SMALL < VERIF_BLOCK && size <= VERIF_SMALL)
        return calloc(1, VERIF_SMALL);
    return calloc(1, VERIF_BLOCK);
}

struct Unit __rust_dealloc(uint8_t *ptr, size_t size, size_t align)
{
    __KANI_assert(__KANI_is_nonzero_power_of_two(align), "Alignment is power of two");
    __KANI_assert(__CPROVER_OBJECT_SIZE(ptr) >= size,
                  "rust_dealloc must be called on an object at least as large as its layout");
    free(ptr);
    return VoidUnit;
}

uint8_t *__rust_realloc(uint8_t *ptr, size_t old_size, size_t align, size_t new_size)
{
    __KANI_assert(ptr != 0, "rust_realloc must be called with a non-null pointer");
    __KANI_assert(new_size > 0, "rust_realloc must be called with a size greater than 0");
    __KANI_assert(__KANI_is_nonzero_power_of_two(align), "Alignment is power of two");
    __KANI_assert(new_size <= __CPROVER_OBJECT_SIZE(ptr),
                  "VERIF_BOUND realloc request exceeds VERIF_BLOCK");
    return ptr;
}

struct Unit __rust_no_alloc_shim_is_unstable_v2(void)
{
    return VoidUnit;
}
