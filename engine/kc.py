#!/usr/bin/env python3
"""kc — Kani front end, CBMC back end (DESIGN.md §3).

    kc.py check <PROPERTY> [--tier quick|thorough] [--only h1,h2] [--keep]
    kc.py replay <replay.json>
    kc.py setup
    kc.py list [<PROPERTY>]

Everything is regenerated from the *current working tree* of the repository
(env VERIF_REPO, default /repo) on every run:

  stage (rsync to scratch) -> inject harness modules -> `cargo kani
  --only-codegen` -> goto-cc / goto-instrument with engine/verif_lib.c in place
  of Kani's kani_lib.c -> cbmc (SAT: cadical) -> classify every CBMC property
  -> re-solve failed properties with --trace, read the witness out of VERIF_W
  -> replay natively on the real code (dev + release) -> evidence + exit code.

Exit codes: 0 = every obligation proved within its bound (known findings
excepted), 1 = VIOLATION (replayed on the real code), 2 = inconclusive
(timeout, memory, bound too small, vacuous harness, non-reproducing
counterexample).  Python stdlib only.
"""
import argparse
import fcntl
import glob
import hashlib
import json
import os
import random
import re
import resource
import shutil
import signal
import subprocess
import sys
import threading
import time
from pathlib import Path

VERIF = Path(__file__).resolve().parent.parent
REPO = Path(os.environ.get("VERIF_REPO", "/repo"))
HARNESS_DIR = VERIF / "harness"
CACHE = VERIF / ".cache"
SCRATCH_ROOT = Path(os.environ.get("VERIF_SCRATCH", "/var/tmp"))
MEM_BUDGET_GB = int(os.environ.get("VERIF_MEM_GB", "56"))
CORES = int(os.environ.get("VERIF_CORES", str(os.cpu_count() or 4)))
BUDGET_FILE = SCRATCH_ROOT / "verif-budget.json"
# where evidence/ and replays/ are written: /verif for the registered checks; runs against
# seeded changes (engine/mutcheck.py) and probes point it elsewhere so that they never
# overwrite evidence about /repo itself
OUT = Path(os.environ.get("VERIF_OUT", str(VERIF)))

VERIF_BASE = 0x5EEDC0DE00000000      # harness/support.rs
VERIF_FILL = 0xA5A55A5AC3C33C3C

CBMC_FLAGS = [
    "--no-malloc-may-fail", "--no-undefined-shift-check",
    "--no-signed-overflow-check", "--nan-check",
    "--no-self-loops-to-assumptions", "--no-pointer-primitive-check",
    "--object-bits", "16", "--unwinding-assertions", "--verbosity", "9",
]
# back ends: CBMC's propositional flattening + CaDiCaL (default), or CBMC's SMT2
# (QF_AUFBV) output piped to z3 -- used for the few kernels with 64-bit division
# by a 32-bit constant that the SAT solver does not finish (DESIGN.md section 3.6)
SOLVER_FLAGS = {"cadical": ["--sat-solver", "cadical"], "z3": ["--z3"],
                "kissat": ["--external-sat-solver", "kissat"]}

ENV = dict(os.environ)
ENV["CARGO_NET_OFFLINE"] = "true"
ENV.pop("RUSTFLAGS", None)

REPO_MODULES = (
    "util", "fpgroups", "geometry", "dsets", "dsyms", "derived", "drawing",
    "fundamental_group", "covers", "simplify", "euclidicity", "delaney2d",
    "delaney3d", "pgraphs", "tilings", "parse_dsym", "generators",
)


def log(*a):
    print(*a, flush=True)


def signed(vals):
    """u64 witness values shown as i64 when the top bit is set (readability only)"""
    return [v - (1 << 64) if v >= (1 << 63) else v for v in vals]


# --------------------------------------------------------------------------
# harness registry (parsed from the harness sources on every run)
# --------------------------------------------------------------------------

class Harness:
    def __init__(self, name, file, module, prop, opts, flags):
        self.name = name
        self.file = file
        self.module = module          # repo source file the harness is injected in
        self.prop = prop
        self.tier = opts.get("tier", "quick")
        self.unwind = int(opts.get("unwind", "4"))
        self.block = int(opts.get("block", "128"))
        self.small = int(opts.get("small", "0"))
        self.timeout = int(opts.get("timeout", "900"))
        self.mem = int(opts.get("mem", "8"))
        self.group = opts.get("group", "")
        self.solver = opts.get("solver", "cadical")
        self.twin = "twin" in flags
        self.stretch = "stretch" in flags
        self.noslice = "noslice" in flags
        self.shape = opts.get("shape", "")

    def modpath(self):
        # e.g. src/geometry/prime_residue_classes.rs -> geometry::prime_residue_classes
        p = self.module[len("src/"):-len(".rs")]
        return p.replace("/", "::")

    def test_path(self):
        return "%s::verif_%s::%s" % (self.modpath(), Path(self.file).stem, self.name)


class HarnessFile:
    def __init__(self, path):
        self.path = path
        self.stem = path.stem
        self.module = None
        self.prop = None
        self.also = []               # other properties whose checks need this file compiled in
        self.header = []
        self.harnesses = []
        text = path.read_text()
        for line in text.splitlines():
            if line.startswith("//!"):
                body = line[3:].strip()
                m = re.match(r"@module\s+(\S+)", body)
                if m:
                    self.module = m.group(1)
                    continue
                m = re.match(r"@property\s+(\S+)", body)
                if m:
                    self.prop = m.group(1)
                    continue
                m = re.match(r"@also\s+(.*)", body)
                if m:
                    self.also += m.group(1).split()
                    continue
                self.header.append(line[3:].rstrip())
            m = re.match(r"\s*//\s*@harness\s+(\w+)\s*(.*)$", line)
            if m:
                opts, flags = {}, set()
                for tok in m.group(2).split():
                    if "=" in tok:
                        k, v = tok.split("=", 1)
                        opts[k] = v
                    else:
                        flags.add(tok)
                self.harnesses.append(Harness(m.group(1), str(path), self.module,
                                              self.prop, opts, flags))
        if self.module is None or self.prop is None:
            raise SystemExit("harness file %s lacks @module/@property" % path)
        # every registered harness must exist as a fn in the file
        for h in self.harnesses:
            if not re.search(r"\b%s\b" % re.escape(h.name),
                             re.sub(r"//[^\n]*", "", text)):
                raise SystemExit("harness %s registered but not defined in %s" % (h.name, path))


def load_registry():
    files = []
    for p in sorted(HARNESS_DIR.glob("*.rs")):
        if p.name == "support.rs":
            continue
        files.append(HarnessFile(p))
    return files


# --------------------------------------------------------------------------
# cross-process resource budget (several checks may run at the same time)
# --------------------------------------------------------------------------

class Budget:
    """Memory (GB) and core reservations shared by all kc.py processes."""

    def __init__(self):
        self.lock = threading.Lock()
        self.mine = {}
        self.counter = 0

    def _update(self, fn):
        BUDGET_FILE.parent.mkdir(parents=True, exist_ok=True)
        with open(str(BUDGET_FILE) + ".lock", "w") as lk:
            fcntl.flock(lk, fcntl.LOCK_EX)
            try:
                data = json.loads(BUDGET_FILE.read_text())
            except Exception:
                data = {}
            # drop reservations of dead processes
            for k in list(data):
                pid = int(k.split(":")[0])
                try:
                    os.kill(pid, 0)
                except OSError:
                    del data[k]
            res = fn(data)
            BUDGET_FILE.write_text(json.dumps(data))
            return res

    def acquire(self, mem, patience=None):
        """patience (s): give up waiting after that long and proceed anyway (used by the
        out-of-memory retry, which already holds a reservation: waiting forever could deadlock)"""
        mem = min(mem, MEM_BUDGET_GB)
        with self.lock:
            self.counter += 1
            key = "%d:%d" % (os.getpid(), self.counter)
        t_start = time.time()
        while True:
            if patience is not None and time.time() - t_start > patience:
                return key
            def attempt(data):
                used = sum(v for v in data.values())
                if used + mem <= MEM_BUDGET_GB and len(data) < CORES:
                    data[key] = mem
                    return True
                return False
            if self._update(attempt):
                return key
            time.sleep(1.0)

    def release(self, key):
        def rel(data):
            data.pop(key, None)
        self._update(rel)


BUDGET = Budget()


def run_limited(cmd, cwd, mem_gb, timeout, stdout_path, stderr_path=None, env=None):
    """Run cmd under an address-space limit and a wall-clock limit.
    Returns (status, wall_s, maxrss_mb, returncode)."""
    def pre():
        os.setsid()
        if mem_gb:
            lim = int(mem_gb * (1 << 30))
            resource.setrlimit(resource.RLIMIT_AS, (lim, lim))
    t0 = time.time()
    with open(stdout_path, "wb") as out:
        err = open(stderr_path, "wb") if stderr_path else subprocess.DEVNULL
        p = subprocess.Popen(cmd, cwd=cwd, stdout=out, stderr=err, env=env or ENV,
                             preexec_fn=pre)
        status = "done"
        deadline = t0 + timeout
        ru = None
        while True:
            try:
                pid, st, ru = os.wait4(p.pid, os.WNOHANG)
            except ChildProcessError:
                pid, st = p.pid, 0
            if pid != 0:
                break
            if time.time() > deadline:
                status = "timeout"
                try:
                    os.killpg(p.pid, signal.SIGKILL)
                except OSError:
                    pass
                pid, st, ru = os.wait4(p.pid, 0)
                break
            time.sleep(0.2)
        if stderr_path:
            err.close()
    rc = os.waitstatus_to_exitcode(st) if pid else -1
    p.returncode = rc
    rss = (ru.ru_maxrss / 1024.0) if ru else 0.0
    return status, time.time() - t0, rss, rc


# --------------------------------------------------------------------------
# staging, injection, code generation
# --------------------------------------------------------------------------

def stage(scratch, files):
    repo = scratch / "repo"
    subprocess.check_call(["rsync", "-a", "--delete", "--exclude", "/target",
                           "--exclude", "/.git", str(REPO) + "/", str(repo) + "/"])
    guard = "#[cfg(any(kani, verif_replay))]"
    with open(repo / "src/lib.rs", "a") as f:
        f.write('\n%s #[path = "%s"] pub mod verif_support;\n'
                % (guard, HARNESS_DIR / "support.rs"))
    for hf in files:
        target = repo / hf.module
        if not target.exists():
            raise SystemExit("INCONCLUSIVE: module file %s missing in %s" % (hf.module, REPO))
        with open(target, "a") as f:
            f.write('\n%s #[path = "%s"] pub(crate) mod verif_%s;\n' % (guard, hf.path, hf.stem))
    # silence the unexpected-cfg lint without touching the repo's Cargo.toml semantics
    return repo


def copy_cache(name, dest):
    src = CACHE / name
    if src.exists() and not dest.exists():
        subprocess.call(["cp", "-a", "--reflink=auto", str(src), str(dest)])


def kani_codegen(scratch, repo):
    target = scratch / "target"
    copy_cache("kani-target", target)
    t0 = time.time()
    cmd = ["cargo", "kani", "-Z", "stubbing", "--only-codegen",
           "--no-assertion-reach-checks", "--target-dir", str(target)]
    with open(scratch / "codegen.log", "wb") as out:
        rc = subprocess.call(cmd, cwd=repo, stdout=out, stderr=subprocess.STDOUT, env=ENV)
    if rc != 0:
        tail = (scratch / "codegen.log").read_text(errors="replace")
        errs = [l for l in tail.splitlines() if l.startswith("error")]
        return None, time.time() - t0, "\n".join(errs[:20]) or tail[-2000:]
    metas = glob.glob(str(target / "kani/*/debug/build/rust_dsymbols/*/out/*.kani-metadata.json"))
    table = {}
    newest = {}
    for m in metas:
        data = json.loads(Path(m).read_text())
        mt = os.path.getmtime(m)
        for h in data.get("proof_harnesses", []):
            short = h["pretty_name"].split("::")[-1]
            if short not in newest or mt > newest[short]:
                if os.path.exists(h["goto_file"]):
                    table[short] = h
                    newest[short] = mt
    return table, time.time() - t0, ""


def link(h, meta, work):
    """Kani's own link sequence with verif_lib.c substituted for kani_lib.c."""
    out = str(work / (h.name + ".goto"))
    lib = str(VERIF / "engine/verif_lib.c")
    steps = [
        ["goto-cc", "-DVERIF_BLOCK=%d" % h.block] +
        (["-DVERIF_SMALL=%d" % h.small] if h.small else []) +
        [meta["goto_file"], lib, "-o", out],
        ["goto-cc", out, "--function", meta["mangled_name"], "-o", out],
        ["goto-instrument", "--add-library", "--no-malloc-may-fail", out, out],
        ["goto-instrument", "--generate-function-body-options", "assert-false-assume-false",
         "--generate-function-body", ".*", "--drop-unused-functions", out, out],
        ["goto-instrument", "--ensure-one-backedge-per-target", out, out],
    ]
    for s in steps:
        r = subprocess.run(s, stdout=subprocess.PIPE, stderr=subprocess.STDOUT)
        if r.returncode != 0:
            return None, r.stdout.decode(errors="replace")[-1500:]
    r = subprocess.run(["goto-instrument", "--list-goto-functions", out],
                       stdout=subprocess.PIPE, stderr=subprocess.DEVNULL)
    funcs = []
    for line in r.stdout.decode(errors="replace").splitlines():
        m = re.match(r"^(.*) /\* (\S+?)(, body not available)? \*/$", line)
        if not m:
            continue
        name = m.group(1)
        if "verif_" in name or m.group(3):
            continue
        stripped = re.sub(r"^<+(impl )?", "", name)
        if any(re.search(r"(^|[ <&(])%s::" % mod, name) for mod in REPO_MODULES) \
                and not stripped.startswith(("std::", "core::", "alloc::", "kani::")):
            funcs.append(name)
        elif any(name.startswith("<" + mod + "::") or name.startswith(mod + "::")
                 for mod in REPO_MODULES):
            funcs.append(name)
    return out, sorted(set(funcs))


# --------------------------------------------------------------------------
# solving and classification
# --------------------------------------------------------------------------

def parse_cbmc_json(path):
    try:
        data = json.loads(Path(path).read_text(errors="replace"))
    except Exception:
        return None
    res = {"results": None, "status": None, "msgs": []}
    for e in data:
        if "result" in e:
            res["results"] = e["result"]
        elif "cProverStatus" in e:
            res["status"] = e["cProverStatus"]
        elif "messageText" in e:
            res["msgs"].append((e.get("messageType", ""), e["messageText"]))
    return res


def stats_from_msgs(msgs):
    st = {"ssa_steps": 0, "vccs": 0, "vccs_remaining": 0, "variables": 0, "clauses": 0,
          "symex_s": 0.0, "solver_s": 0.0, "sat_calls": 0}
    for _, t in msgs:
        m = re.match(r"size of program expression: (\d+) steps", t)
        if m:
            st["ssa_steps"] = int(m.group(1))
        m = re.match(r"Generated (\d+) VCC\(s\), (\d+) remaining", t)
        if m:
            st["vccs"], st["vccs_remaining"] = int(m.group(1)), int(m.group(2))
        m = re.match(r"(\d+) variables, (\d+) clauses", t)
        if m:
            st["variables"] = max(st["variables"], int(m.group(1)))
            st["clauses"] = max(st["clauses"], int(m.group(2)))
        m = re.match(r"Runtime Symex: ([\d.e+-]+)s", t)
        if m:
            st["symex_s"] = float(m.group(1))
        m = re.match(r"Runtime Solver: ([\d.e+-]+)s", t)
        if m:
            st["solver_s"] += float(m.group(1))
            st["sat_calls"] += 1
    return st


def classify_result(r):
    """-> 'ok' | 'error' | 'bound' | 'reach' | 'cand'"""
    if r.get("status") == "SUCCESS":
        return "ok"
    if r.get("status") != "FAILURE":
        return "error"          # ERROR / UNKNOWN: solver ran out of memory or crashed
    desc = r.get("description", "")
    pid = r.get("property", "")
    cls = r.get("sourceLocation", {}).get("propertyClass", "")
    if "VERIF_BOUND" in desc or ".unwind." in pid or cls == "unwind" \
            or "unwinding assertion" in desc or ".recursion" in pid:
        return "bound"
    if "VERIF_REACH_END" in desc:
        return "reach"
    if re.search(r"C\d\d\.INV\.", desc):
        return "inv"            # inductive invariant not preserved: the induction does not close
    return "cand"


def label_of(r):
    desc = r.get("description", "").strip()
    m = re.match(r'^"?(C\d\d[\w.\-]*)"?$', desc.strip('"'))
    if desc.startswith('"C') and m:
        return m.group(1)
    m = re.search(r'(C\d\d\.[\w.\-]+)', desc)
    if m and r.get("sourceLocation", {}).get("file", "").startswith(str(HARNESS_DIR)):
        return m.group(1)
    fn = r.get("sourceLocation", {}).get("function", "?")
    return "%s: %s" % (fn, desc)


def solve(h, goto, work, extra=None, tag="main", slice_formula=True):
    """One cbmc run under the harness's memory cap; if the solver runs out of memory the run is
    repeated ONCE under three times the cap (changed code can need much more memory than the
    clean code the caps were calibrated on)."""
    res = solve_once(h, goto, work, extra, tag, slice_formula, h.mem)
    status, wall, rss, rc, parsed = res
    oom = status == "done" and (parsed is None or parsed["results"] is None or parsed.get("solver_error"))
    big = min(48, h.mem * 3)
    if oom and big > h.mem:
        key = BUDGET.acquire(big - h.mem, patience=300)
        try:
            res2 = solve_once(h, goto, work, extra, tag + "-retry", slice_formula, big)
        finally:
            BUDGET.release(key)
        return (res2[0], wall + res2[1], max(rss, res2[2]), res2[3], res2[4])
    return res


def solve_once(h, goto, work, extra, tag, slice_formula, mem):
    out = work / ("%s.%s.json" % (h.name, tag))
    cmd = ["cbmc"] + CBMC_FLAGS + SOLVER_FLAGS[h.solver] + ["--unwind", str(h.unwind), "--json-ui"]
    if slice_formula and not h.noslice:
        cmd.append("--slice-formula")
    if extra:
        cmd += extra
    cmd.append(goto)
    status, wall, rss, rc = run_limited(cmd, str(work), mem, h.timeout, str(out))
    parsed = parse_cbmc_json(out) if status == "done" else None
    if parsed is not None and parsed["results"] is not None:
        errs = [t for k, t in parsed["msgs"] if k == "ERROR"]
        if parsed["status"] == "error" or errs or \
                any(classify_result(r) == "error" for r in parsed["results"]):
            parsed["solver_error"] = "; ".join(errs)[:300] or "cbmc status error"
    return status, wall, rss, rc, parsed


def list_properties(goto):
    r = subprocess.run(["cbmc", "--show-properties", "--json-ui", goto],
                       stdout=subprocess.PIPE, stderr=subprocess.DEVNULL)
    try:
        data = json.loads(r.stdout.decode(errors="replace"))
    except Exception:
        return []
    for e in data:
        if "properties" in e:
            return e["properties"]
    return []


def find_property(props, needle):
    for p in props:
        if needle in p.get("description", ""):
            return p["name"]
    return None


def witness_from_trace(parsed, prop_id):
    if not parsed or not parsed["results"]:
        return None
    for r in parsed["results"]:
        if r.get("property") == prop_id and r.get("status") == "FAILURE" and "trace" in r:
            vals = {}
            n = 0
            for s in r["trace"]:
                if s.get("stepType") != "assignment":
                    continue
                lhs = s.get("lhs", "")
                m = re.match(r"VERIF_W\[(.*)\]\s*$", lhs)
                v = s.get("value", {})
                idx = None
                if m:
                    # CBMC prints some constant indices as `sizeof(struct ...) /*1ul*/`
                    mc = re.search(r"/\*\s*(\d+)[a-z]*\s*\*/", m.group(1))
                    md = re.match(r"\s*(\d+)", m.group(1))
                    if mc:
                        idx = int(mc.group(1))
                    elif md:
                        idx = int(md.group(1))
                if idx is not None and "binary" in v:
                    vals[idx] = int(v["binary"], 2)
                elif lhs == "VERIF_W" and isinstance(v.get("elements"), list):
                    # whole-array snapshot (CBMC prints these at phi nodes): every slot that no
                    # longer holds the fill pattern has been written by vin()
                    for el in v["elements"]:
                        ev = el.get("value", {})
                        if "binary" in ev and int(ev["binary"], 2) != VERIF_FILL:
                            vals[int(el.get("index", -1))] = int(ev["binary"], 2)
                elif lhs == "VERIF_N" and "binary" in v:
                    n = int(v["binary"], 2) - VERIF_BASE
            if vals:
                n = max(n, max(vals) + 1)
            return [vals.get(i, 0) for i in range(n)]
    return None


# --------------------------------------------------------------------------
# native replay
# --------------------------------------------------------------------------

class Native:
    """Native (rustc, real allocator) build of the same staged tree with
    --cfg verif_replay; harnesses are #[test] functions there."""

    def __init__(self, scratch, repo):
        self.scratch, self.repo = scratch, repo
        self.bins = {}
        self.lock = threading.Lock()
        self.build_s = 0.0

    def build(self, profile):
        with self.lock:
            if profile in self.bins:
                return self.bins[profile]
            target = self.scratch / "target-native"
            copy_cache("native-target", target)
            env = dict(ENV)
            env["RUSTFLAGS"] = "--cfg verif_replay -A warnings"
            cmd = ["cargo", "test", "--offline", "--lib", "--no-run",
                   "--message-format=json", "--target-dir", str(target)]
            if profile == "release":
                cmd.insert(2, "--release")
            t0 = time.time()
            r = subprocess.run(cmd, cwd=self.repo, env=env, stdout=subprocess.PIPE,
                               stderr=subprocess.PIPE)
            self.build_s += time.time() - t0
            exe = None
            for line in r.stdout.decode(errors="replace").splitlines():
                try:
                    j = json.loads(line)
                except Exception:
                    continue
                if j.get("reason") == "compiler-artifact" and j.get("executable") \
                        and j.get("target", {}).get("name") == "rust_dsymbols":
                    exe = j["executable"]
            if r.returncode != 0 or not exe:
                self.bins[profile] = None
                (self.scratch / ("native-%s.log" % profile)).write_bytes(r.stderr)
            else:
                self.bins[profile] = exe
            return self.bins[profile]

    def run(self, h, values, profile="dev"):
        exe = self.build(profile)
        if not exe:
            return {"outcome": "build-failed"}
        wf = self.scratch / ("w-%s-%s-%d.txt" % (h.name, profile, random.getrandbits(32)))
        wf.write_text("\n".join(str(v) for v in values) + "\n")
        env = dict(ENV)
        env["VERIF_REPLAY_FILE"] = str(wf)
        env["RUST_BACKTRACE"] = "0"
        try:
            r = subprocess.run([exe, "--exact", h.test_path(), "--nocapture",
                                "--test-threads=1"], env=env, stdout=subprocess.PIPE,
                               stderr=subprocess.PIPE, timeout=300)
        except subprocess.TimeoutExpired:
            return {"outcome": "timeout"}
        text = r.stderr.decode(errors="replace") + r.stdout.decode(errors="replace")
        if "running 1 test" not in text:
            return {"outcome": "not-found", "text": text[-400:]}
        if r.returncode == 3 or "VERIF_REPLAY_ASSUME_FAILED" in text:
            return {"outcome": "assume-failed"}
        if r.returncode == 4 or "VERIF_REPLAY_WITNESS_EXHAUSTED" in text:
            return {"outcome": "witness-exhausted"}
        m = re.search(r"panicked at ([^\n]*?):(\d+):(\d+):\n([^\n]*)", text)
        if m:
            out = {"outcome": "panic", "file": m.group(1), "line": int(m.group(2)),
                   "message": m.group(4)[:300]}
            mi = re.search(r"VERIF_REPLAY_INPUT ([^\n]*)", text)
            if mi:
                out["input"] = mi.group(1)[:400]
            return out
        if r.returncode == 0:
            return {"outcome": "no-panic"}
        return {"outcome": "abnormal", "rc": r.returncode, "text": text[-400:]}


# --------------------------------------------------------------------------
# known findings
# --------------------------------------------------------------------------

def load_known():
    path = VERIF / "known_findings.txt"
    found, fixed = [], []
    if path.exists():
        for line in path.read_text().splitlines():
            line = line.strip()
            if not line or line.startswith("#"):
                continue
            kind, _, rest = line.partition(":")
            entry = {"raw": line}
            for m in re.finditer(r'(\w+)=("([^"]*)"|\S+)', rest):
                entry[m.group(1)] = m.group(3) if m.group(3) is not None else m.group(2)
            (found if kind.strip() == "finding" else fixed).append(entry)
    return found, fixed


def match_known(found, prop, harness, label):
    for e in found:
        if e.get("property") != prop:
            continue
        if e.get("label") != label:
            continue
        hp = e.get("harness")
        if hp and not re.fullmatch(hp.replace("*", ".*"), harness):
            continue
        return e
    return None


# --------------------------------------------------------------------------
# the check
# --------------------------------------------------------------------------

def run_check(prop, tier, only, keep, seed):
    t_start = time.time()
    registry = load_registry()
    own = [f for f in registry if f.prop == prop]
    files = own + [f for f in registry if f.prop != prop and prop in f.also]
    if not own:
        raise SystemExit("no harness file for property %s" % prop)
    harnesses = []
    for f in own:
        for h in f.harnesses:
            if only and h.name not in only:
                continue
            if tier == "quick" and h.tier != "quick":
                continue
            if h.tier == "probe" and not only:
                continue
            harnesses.append(h)
    if not harnesses:
        raise SystemExit("no harness selected")
    rnd = random.Random(seed)
    rnd.shuffle(harnesses)
    harnesses.sort(key=lambda h: (-h.timeout, -h.mem))       # longest (then biggest) jobs first

    scratch = SCRATCH_ROOT / ("verif-%s-%d" % (prop, os.getpid()))
    if scratch.exists():
        shutil.rmtree(scratch)
    scratch.mkdir(parents=True)
    work = scratch / "work"
    work.mkdir()
    exit_code = 0
    try:
        repo = stage(scratch, files)
        log("[kc] %s tier=%s: staged %s -> %s, %d harness(es)"
            % (prop, tier, REPO, repo, len(harnesses)))
        table, cg_s, err = kani_codegen(scratch, repo)
        if table is None:
            log("[kc] INCONCLUSIVE: code generation failed (the tree or a harness does not "
                "compile under Kani):\n" + err)
            write_evidence(prop, tier, seed, [], files, time.time() - t_start,
                           note="code generation failed", violations=0)
            return 2
        log("[kc] kani codegen %.1fs, %d proof harness(es) compiled" % (cg_s, len(table)))
        native = Native(scratch, repo)
        found, fixed = load_known()

        results = []
        res_lock = threading.Lock()

        def job(h):
            rec = {"harness": h.name, "file": Path(h.file).name, "twin": h.twin,
                   "stretch": h.stretch, "unwind": h.unwind, "block": h.block, "small": h.small,
                   "solver": h.solver,
                   "tier": h.tier, "shape": h.shape, "verdict": None, "violations": [],
                   "known": [], "inconclusive": [], "replays": 0}
            key = BUDGET.acquire(h.mem)
            try:
                job_inner(h, rec)
            except Exception as ex:       # never let a crash look like a pass
                rec["verdict"] = "inconclusive"
                rec["inconclusive"].append("driver error: %r" % (ex,))
            finally:
                BUDGET.release(key)
            with res_lock:
                results.append(rec)
            log("[kc]   %-44s %-12s %6.1fs %6.0fMB  props %s/%s  vars %s clauses %s%s"
                % (h.name, rec["verdict"], rec.get("wall_s", 0), rec.get("rss_mb", 0),
                   rec.get("proved", "-"), rec.get("properties", "-"),
                   rec.get("stats", {}).get("variables", "-"),
                   rec.get("stats", {}).get("clauses", "-"),
                   ("  " + "; ".join(rec["inconclusive"])[:160]) if rec["inconclusive"] else ""))

        def job_inner(h, rec):
            if h.name not in table:
                rec["verdict"] = "inconclusive"
                rec["inconclusive"].append("harness not generated by Kani")
                return
            goto, funcs = link(h, table[h.name], work)
            if goto is None:
                rec["verdict"] = "inconclusive"
                rec["inconclusive"].append("link failed: " + funcs[-300:])
                return
            rec["functions"] = funcs
            props = list_properties(goto)
            guard_id = find_property(props, "VERIF_WITNESS_GUARD")
            if h.twin:
                # vacuity twin: only the end-of-body assertion (plus the witness guard, which
                # keeps the input stores alive under slicing) is solved; it must be VIOLATED
                # and the violating trace must replay natively to the end of the body
                reach_id = find_property(props, "VERIF_REACH_END")
                if not reach_id or not guard_id:
                    rec["verdict"] = "inconclusive"
                    rec["inconclusive"].append("twin without VERIF_REACH_END / guard property")
                    return
                status, wall, rss, rc, parsed = solve(
                    h, goto, work, extra=["--property", reach_id, "--property", guard_id, "--trace"])
                rec["wall_s"], rec["rss_mb"] = round(wall, 2), round(rss, 1)
                if status == "timeout":
                    rec["verdict"] = "inconclusive"
                    rec["inconclusive"].append("timeout after %ds" % h.timeout)
                    return
                if parsed is None or parsed["results"] is None or parsed.get("solver_error"):
                    rec["verdict"] = "inconclusive"
                    rec["inconclusive"].append(
                        "cbmc gave no complete result (rc=%s; out of memory under the %d GB cap, or error: %s)"
                        % (rc, h.mem, (parsed or {}).get("solver_error", "no output")))
                    return
                rec["stats"] = stats_from_msgs(parsed["msgs"])
                rs = parsed["results"]
                rec["properties"] = len(rs)
                rec["proved"] = sum(1 for r in rs if r.get("status") == "SUCCESS")
                for r in rs:
                    if classify_result(r) == "bound":
                        rec["inconclusive"].append("bound too small: %s [%s]"
                                                   % (r.get("description", ""), r.get("property", "")))
                reach = [r for r in rs if classify_result(r) == "reach"]
                if not reach:
                    rec["inconclusive"].append(
                        "VACUOUS: end of harness body unreachable (assumptions unsatisfiable "
                        "or every path panics/diverges earlier)")
                else:
                    w = witness_from_trace(parsed, reach[0]["property"])
                    if w is None:
                        rec["inconclusive"].append("could not extract reach witness")
                    else:
                        rp = native.run(h, w, "dev")
                        rec["replays"] += 1
                        rec["reach_witness"] = w
                        if not (rp["outcome"] == "panic" and "VERIF_REACH_END" in rp.get("message", "")):
                            rec["inconclusive"].append(
                                "reach witness does not replay natively to the end of the body: %s" % rp)
                rec["verdict"] = "inconclusive" if rec["inconclusive"] else "reachable"
                return
            status, wall, rss, rc, parsed = solve(h, goto, work)
            rec["wall_s"], rec["rss_mb"] = round(wall, 2), round(rss, 1)
            if status == "timeout":
                rec["verdict"] = "inconclusive"
                rec["inconclusive"].append("timeout after %ds" % h.timeout)
                return
            if parsed is None or parsed["results"] is None or parsed.get("solver_error"):
                rec["verdict"] = "inconclusive"
                rec["inconclusive"].append(
                    "cbmc gave no complete result (rc=%s; out of memory under the %d GB cap, or error: %s)"
                    % (rc, h.mem, (parsed or {}).get("solver_error", "no output")))
                return
            rec["stats"] = stats_from_msgs(parsed["msgs"])
            rs = parsed["results"]
            rec["properties"] = len(rs)
            rec["proved"] = sum(1 for r in rs if r.get("status") == "SUCCESS")
            kinds = {}
            for r in rs:
                kinds.setdefault(classify_result(r), []).append(r)
            for r in kinds.get("bound", []):
                rec["inconclusive"].append("bound too small: %s [%s]"
                                           % (r.get("description", ""), r.get("property", "")))
            for r in kinds.get("reach", []):
                rec["inconclusive"].append("VERIF_REACH_END failed in a non-twin harness")
            for r in kinds.get("inv", []):
                rec["inconclusive"].append(
                    "harness invariant not preserved (%s): the inductive argument does not close for "
                    "this code; semantic clauses are decided separately" % r.get("description", ""))
            cands = kinds.get("cand", [])
            chosen, seen_labels = [], set()
            for r in cands:
                lab = label_of(r)
                if lab in seen_labels:
                    continue
                seen_labels.add(lab)
                chosen.append((lab, r))
                if len(chosen) >= 6:
                    break
            traces = None
            if chosen:
                extra = ["--trace"]
                for _, r in chosen:
                    extra += ["--property", r["property"]]
                if guard_id:
                    extra += ["--property", guard_id]
                st2, wall2, rss2, rc2, traces = solve(h, goto, work, extra=extra, tag="trace")
                rec["wall_s"] = round(rec["wall_s"] + wall2, 2)
                rec["rss_mb"] = max(rec["rss_mb"], round(rss2, 1))
            for lab, r in chosen:
                w = witness_from_trace(traces, r["property"])
                if w is None:
                    rec["inconclusive"].append("no witness for failed property %s" % r.get("property"))
                    continue
                rp = native.run(h, w, "dev")
                rec["replays"] += 1
                if rp["outcome"] == "witness-exhausted":
                    # inputs the failure does not depend on are sliced out of the trace: any value
                    # the assumptions admit will do for them; the padded witness is what is replayed
                    # (and reported), so the native run still decides
                    for pad in (0, 1, 2):
                        w2 = list(w) + [pad] * 32
                        rp2 = native.run(h, w2, "dev")
                        rec["replays"] += 1
                        if rp2["outcome"] not in ("witness-exhausted", "assume-failed"):
                            w, rp = w2, rp2
                            break
                if rp["outcome"] != "panic" or "VERIF_REACH_END" in rp.get("message", ""):
                    rec["inconclusive"].append(
                        "NON-REPRODUCING counterexample for %s (%s): native replay %s"
                        % (lab, r.get("property"), rp))
                    continue
                rel = native.run(h, w, "release")
                rec["replays"] += 1
                loc = r.get("sourceLocation", {})
                v = {"label": lab, "cbmc_property": r.get("property"),
                     "description": r.get("description"),
                     "cbmc_location": "%s:%s" % (loc.get("file"), loc.get("line")),
                     "witness": w, "native_dev": rp, "native_release": rel}
                k = match_known(found, h.prop, h.name, lab)
                if k:
                    v["known"] = k["raw"]
                    rec["known"].append(v)
                else:
                    rdir = OUT / "replays" / h.prop
                    rdir.mkdir(parents=True, exist_ok=True)
                    hsh = hashlib.sha1(json.dumps([h.name, lab, w]).encode()).hexdigest()[:10]
                    rpath = rdir / ("%s-%s.json" % (h.name, hsh))
                    rpath.write_text(json.dumps({
                        "property": h.prop, "harness": h.name, "harness_file": h.file,
                        "label": lab, "values": w, "cbmc_property": r.get("property"),
                        "description": r.get("description"),
                        "cbmc_location": v["cbmc_location"],
                        "native_dev": rp, "native_release": rel}, indent=1))
                    v["replay"] = str(rpath)
                    rec["violations"].append(v)
            if rec["violations"]:
                rec["verdict"] = "VIOLATION"
            elif rec["inconclusive"]:
                rec["verdict"] = "inconclusive"
            elif rec["known"]:
                rec["verdict"] = "known-finding"
            else:
                rec["verdict"] = "proved"

        threads = []
        for h in harnesses:
            t = threading.Thread(target=job, args=(h,))
            t.start()
            threads.append(t)
            time.sleep(0.05)
        for t in threads:
            t.join()

        results.sort(key=lambda r: r["harness"])
        n_viol = 0
        for rec in results:
            for v in rec["known"]:
                log("KNOWN-FINDING: property=%s harness=%s label=%s witness=%s"
                    % (prop, rec["harness"], v["label"], v["witness"]))
        for rec in results:
            for v in rec["violations"]:
                n_viol += 1
                log("VIOLATION property=%s replay=%s" % (prop, v["replay"]))
                log("    harness=%s label=%s witness=%s native(dev)=%s:%s %s | release: %s%s"
                    % (rec["harness"], v["label"], signed(v["witness"]),
                       v["native_dev"].get("file"), v["native_dev"].get("line"),
                       v["native_dev"].get("message"), v["native_release"].get("outcome"),
                       (" | input text: " + v["native_dev"]["input"]) if v["native_dev"].get("input") else ""))
        inconclusive = [r for r in results
                        if r["verdict"] == "inconclusive" and not r["stretch"]]
        stretch_open = [r for r in results if r["verdict"] == "inconclusive" and r["stretch"]]
        for r in inconclusive:
            log("INCONCLUSIVE harness=%s: %s" % (r["harness"], "; ".join(r["inconclusive"])[:600]))
        for r in stretch_open:
            log("[kc] stretch shape not decided: %s: %s"
                % (r["harness"], "; ".join(r["inconclusive"])[:200]))
        if n_viol:
            exit_code = 1
        elif inconclusive:
            exit_code = 2
        wall = time.time() - t_start
        write_evidence(prop, tier, seed, results, files, wall, violations=n_viol,
                       codegen_s=cg_s, native_build_s=native.build_s)
        log("[kc] %s tier=%s: %d harness(es): %d proved, %d reachable twins, %d known, "
            "%d violation(s), %d inconclusive (%d stretch)  wall %.0fs  -> exit %d"
            % (prop, tier, len(results),
               sum(1 for r in results if r["verdict"] == "proved"),
               sum(1 for r in results if r["verdict"] == "reachable"),
               sum(1 for r in results if r["verdict"] == "known-finding"),
               n_viol, len(inconclusive) + len(stretch_open), len(stretch_open), wall, exit_code))
        return exit_code
    finally:
        if not keep:
            shutil.rmtree(scratch, ignore_errors=True)


def write_evidence(prop, tier, seed, results, files, wall, violations=0, note="",
                   codegen_s=0.0, native_build_s=0.0):
    funcs = sorted({f for r in results for f in r.get("functions", [])})
    st = lambda k: sum(r.get("stats", {}).get(k, 0) for r in results)
    samples = []
    for r in results:
        if r.get("reach_witness") is not None:
            samples.append({"harness": r["harness"], "kind": "vacuity-twin witness "
                            "(solver assignment, replayed natively to the end of the body)",
                            "inputs": r["reach_witness"]})
        for v in r.get("violations", []) + r.get("known", []):
            samples.append({"harness": r["harness"], "kind": "counterexample", "label": v["label"],
                            "inputs": v["witness"]})
    if not samples:
        samples.append({"note": "no twin selected in this run; obligations only",
                        "harnesses": [r["harness"] for r in results][:8]})
    assumptions = []
    for f in files:
        assumptions.append("%s: %s" % (f.path.name, " | ".join(l.strip() for l in f.header if l.strip())))
    assumptions += [
        "allocator model engine/verif_lib.c: every allocation is one block of VERIF_BLOCK bytes, "
        "realloc grows in place, larger requests fail VERIF_BOUND (=> inconclusive); allocation "
        "failure out of scope; std's own unsafe code trusted",
        "compiled by Kani's rustc driver in the dev profile (debug assertions and overflow checks on)",
        "CBMC --unwinding-assertions: a too-small loop bound is reported as inconclusive, never as a pass",
        "Kani 0.68 / CBMC 6.11 / CaDiCaL are trusted; a pass says nothing outside the stated shapes",
    ]
    ev = {
        "property_id": prop,
        "tier": tier,
        "seed": seed,
        "level": "model_checking",
        "wall_s": round(wall, 1),
        "violations": violations,
        "coverage": {
            "states": max(1, st("ssa_steps")),
            "transitions": max(1, st("vccs")),
            "traces_validated_against_impl": sum(r.get("replays", 0) for r in results),
            "samples": samples,
            "explanation": "states = SSA steps of the symbolic execution summed over harnesses; "
                           "transitions = verification conditions generated; every CBMC property "
                           "of every harness (harness assertions + every Rust panic site reached: "
                           "assert!, overflow, index, unwrap, division) is an obligation",
            "obligations": sum(r.get("properties", 0) for r in results),
            "discharged": sum(r.get("proved", 0) for r in results),
            "expected_failures_of_vacuity_twins": sum(1 for r in results if r["verdict"] == "reachable"),
            "obligations_note": "obligations - discharged = one deliberately violated end-of-body "
                                "assertion per reachable vacuity twin (plus anything listed under "
                                "inconclusive / violations)",
            "harnesses": len(results),
            "harnesses_proved": sum(1 for r in results if r["verdict"] == "proved"),
            "twins_reachable": sum(1 for r in results if r["verdict"] == "reachable"),
            "inconclusive": [{"harness": r["harness"], "why": r["inconclusive"], "stretch": r["stretch"]}
                             for r in results if r["verdict"] == "inconclusive"],
            "functions_encoded": funcs,
            "sat_variables_max": max([r.get("stats", {}).get("variables", 0) for r in results] or [0]),
            "sat_clauses_max": max([r.get("stats", {}).get("clauses", 0) for r in results] or [0]),
            "symex_s": round(st("symex_s"), 2),
            "solver_s": round(st("solver_s"), 2),
            "sat_calls": st("sat_calls"),
            "kani_codegen_s": round(codegen_s, 1),
            "native_replay_build_s": round(native_build_s, 1),
            "peak_rss_mb": max([r.get("rss_mb", 0) for r in results] or [0]),
            "per_harness": [
                {k: r.get(k) for k in ("harness", "file", "verdict", "twin", "stretch", "tier", "shape",
                                       "unwind", "block", "small", "solver", "properties", "proved", "wall_s",
                                       "rss_mb", "stats", "replays")}
                for r in results],
            "repo_head": subprocess.run(["git", "-C", str(REPO), "rev-parse", "HEAD"],
                                        stdout=subprocess.PIPE).stdout.decode().strip(),
            "repo_dirty": bool(subprocess.run(["git", "-C", str(REPO), "status", "--porcelain",
                                               "--untracked-files=no"],
                                              stdout=subprocess.PIPE).stdout.strip()),
            "note": note,
        },
        "assumptions": assumptions,
    }
    (OUT / "evidence").mkdir(parents=True, exist_ok=True)
    (OUT / "evidence" / ("%s.json" % prop)).write_text(json.dumps(ev, indent=1) + "\n")


# --------------------------------------------------------------------------
# replay command, setup
# --------------------------------------------------------------------------

def run_replay(path):
    data = json.loads(Path(path).read_text())
    files = [f for f in load_registry() if f.prop == data["property"] or data["property"] in f.also]
    h = None
    for f in files:
        for x in f.harnesses:
            if x.name == data["harness"]:
                h = x
    if h is None:
        raise SystemExit("harness %s not found" % data["harness"])
    scratch = SCRATCH_ROOT / ("verif-replay-%d" % os.getpid())
    scratch.mkdir(parents=True)
    try:
        repo = stage(scratch, files)
        native = Native(scratch, repo)
        rc = 0
        for prof in ("dev", "release"):
            rp = native.run(h, data["values"], prof)
            log("[replay] %s %s (%s): %s" % (data["property"], h.name, prof, rp))
            if prof == "dev" and rp["outcome"] == "panic" and "VERIF_REACH_END" not in rp.get("message", ""):
                rc = 1
        if rc:
            log("VIOLATION property=%s replay=%s" % (data["property"], path))
        else:
            log("[replay] does not reproduce on the current tree")
        return rc
    finally:
        shutil.rmtree(scratch, ignore_errors=True)


def run_setup():
    """Warm the dependency caches (kani codegen + native test build of the deps)."""
    t0 = time.time()
    files = load_registry()
    scratch = SCRATCH_ROOT / ("verif-setup-%d" % os.getpid())
    if scratch.exists():
        shutil.rmtree(scratch)
    scratch.mkdir(parents=True)
    try:
        repo = stage(scratch, [])
        CACHE.mkdir(exist_ok=True)
        for d in ("kani-target", "native-target"):
            shutil.rmtree(CACHE / d, ignore_errors=True)
        rc = subprocess.call(["cargo", "kani", "-Z", "stubbing", "--only-codegen",
                              "--no-assertion-reach-checks", "--target-dir",
                              str(CACHE / "kani-target")], cwd=repo, env=ENV,
                             stdout=subprocess.DEVNULL, stderr=subprocess.DEVNULL)
        log("[setup] kani dependency cache rc=%d (%.0fs)" % (rc, time.time() - t0))
        env = dict(ENV)
        env["RUSTFLAGS"] = "--cfg verif_replay -A warnings"
        for extra in ([], ["--release"]):
            rc2 = subprocess.call(["cargo", "test", "--offline", "--lib", "--no-run"] + extra +
                                  ["--target-dir", str(CACHE / "native-target")], cwd=repo, env=env,
                                  stdout=subprocess.DEVNULL, stderr=subprocess.DEVNULL)
            log("[setup] native %s cache rc=%d (%.0fs)" % (extra or "dev", rc2, time.time() - t0))
        # drop the crate's own artefacts: they are rebuilt from the staged tree on every run
        for p in glob.glob(str(CACHE / "native-target/*/deps/rust_dsymbols-*")) + \
                glob.glob(str(CACHE / "native-target/*/incremental")):
            if os.path.isdir(p):
                shutil.rmtree(p, ignore_errors=True)
            else:
                os.unlink(p)
        return 0
    finally:
        shutil.rmtree(scratch, ignore_errors=True)


def main():
    ap = argparse.ArgumentParser()
    sub = ap.add_subparsers(dest="cmd", required=True)
    c = sub.add_parser("check")
    c.add_argument("property")
    c.add_argument("--tier", default=os.environ.get("VERIF_TIER", "quick"),
                   choices=["quick", "thorough"])
    c.add_argument("--only", default="")
    c.add_argument("--keep", action="store_true")
    r = sub.add_parser("replay")
    r.add_argument("path")
    sub.add_parser("setup")
    l = sub.add_parser("list")
    l.add_argument("property", nargs="?")
    a = ap.parse_args()
    seed = int(os.environ.get("VERIF_SEED", "0") or 0)
    if a.cmd == "check":
        only = set(x for x in a.only.split(",") if x)
        sys.exit(run_check(a.property, a.tier, only, a.keep, seed))
    if a.cmd == "replay":
        sys.exit(run_replay(a.path))
    if a.cmd == "setup":
        sys.exit(run_setup())
    if a.cmd == "list":
        for f in load_registry():
            if a.property and f.prop != a.property:
                continue
            for h in f.harnesses:
                print(f.prop, f.path.name, h.name, "tier=" + h.tier, "unwind=%d" % h.unwind,
                      "block=%d" % h.block, "mem=%d" % h.mem,
                      "twin" if h.twin else "", "stretch" if h.stretch else "")


if __name__ == "__main__":
    main()
