#!/usr/bin/env python3
"""Regenerates /verif/MANIFEST.json from the table below (kept next to the
engine so that the manifest, DESIGN.md section 1 and the harness registry do not
drift).  Run: python3 engine/mkmanifest.py"""
import json
from pathlib import Path

VERIF = Path(__file__).resolve().parent.parent

TECH = ("bounded symbolic execution of the compiled Rust (Kani codegen -> CBMC), SAT/SMT verdict "
        "(CaDiCaL; z3 for division kernels) over all inputs within the stated shape bounds, "
        "counterexamples replayed natively")

LEVEL_NOTE_COMMON = (
    " Trusted base: Kani 0.68 rustc driver + CBMC 6.11 + CaDiCaL/z3; the fixed-block allocator model "
    "engine/verif_lib.c (requests above VERIF_BLOCK and loops beyond the unwind bound make the run "
    "inconclusive, never a pass); dev profile (overflow checks on). Nothing is claimed outside the "
    "shape bounds; every reported violation has been replayed on the real code with the real allocator.")

CLAIMED = {
    "C01": dict(
        design_ref="DESIGN.md §4 C01",
        text=("Bounded model checking of the real compiled <PartialDSym as FromStr>::from_str with the nom tokenizer "
              "replaced by an arbitrary DSymSpec of a given list shape (over-approximation): for every number in "
              "every list (unconstrained usize) the result is Err or a valid symbol that is the one the text "
              "describes; never a panic. Shapes: size <= 2 x dim <= 2, lists <= 3 numbers, header boundary values "
              "0 / 2^62 / 2^63 / usize::MAX (quick); size 3, dim 3 (thorough). PARTIAL: the tokenizer itself, Display "
              "and therefore both round-trip sentences are NOT decided."),
        note=("Decided: 'parsing ... either a valid symbol or an error, never panics' downstream of the tokenizer. "
              "Not decided: print/parse round trips, nom grammar, shapes beyond the bound. Stub: parse_dsymbol -> "
              "arbitrary DSymSpec (Kani only; the native replay goes through the real tokenizer).")),
    "C02": dict(
        design_ref="DESIGN.md §4 C02",
        text=("Bounded model checking of op/r/v/m/walk/is_complete/is_loopless/orbit_reps_2d/collect_orbits/set and "
              "the as_* conversions on PartialDSet, SimpleDSet, PartialDSym, SimpleDSym for EVERY valid D-set / "
              "D-symbol of shape (2 chambers, dim 2) and (3, 1) (quick), up to 3-4 chambers and dim 3 (thorough), all "
              "index pairs and chambers including out-of-range ones, against an orbit-length oracle. PARTIAL: "
              "everything through Traversal (orbit, orbit_reps, traversal, partial_orientation, is_connected, "
              "is_weakly_oriented, is_oriented) is NOT decided."),
        note=("Representations are built directly from a symbolic array constrained by the validity predicate; one "
              "harness proves new+set establish/preserve that predicate.")),
    "C04": dict(
        design_ref="DESIGN.md §4 C04",
        engine="gen4",
        quick_cmd="python3 engine/gen4.py check --tier quick",
        thorough_cmd="python3 engine/gen4.py check --tier thorough",
        replay="python3 engine/gen4.py replay {path}",
        technique=("two parts, one evidence file: (1) bounded symbolic execution (Kani codegen -> CBMC, engine kc) of the "
                   "DSet trait's provided methods morphism / automorphisms instantiated for an array-backed implementor; "
                   "(2) minimal_image / is_minimal executed from the current tree on every 2D symbol and cover of a "
                   "bounded universe, decided by SMT (z3 QF_BV) over symbolic maps and symbolic PARTITIONS: "
                   "sat(morphism onto the image), unsat(proper degree-respecting congruence on the image), the same "
                   "query on the symbol vs is_minimal(), sat(isomorphism of the minimal images of a symbol and its cover)"),
        text=("(1) Bounded model checking of DSet::morphism / automorphisms / degrees_match_in (the real generic code) "
              "instantiated for an array-backed implementor defined in the harness: for EVERY connected complete symbol "
              "of the shape (every tuple of involutions, every degree function <= 3 constant on 2-orbits) and EVERY "
              "base image (out-of-range ones included), Some(map) is a morphism with that base image and None means "
              "no morphism exists (decided against a fully symbolic candidate map); automorphisms() lists exactly the "
              "automorphisms, each once. Self-maps of 2..4 chambers in dimension 2 and 3..4 chambers in dimension 3, "
              "source != target up to 2x2, automorphism list of 2..3 chambers (quick); 5 chambers, 3x2, 4x2, 3x3, list "
              "of 4 (thorough). (2) For every 2D symbol the D-symbol generator yields on D-sets of at most 4 (thorough: "
              "5) chambers and every cover of covers(symbol, 2 (3)) — 236 symbols, 1237 minimal images — the real "
              "minimal_image and is_minimal are run; the solver decides that the input maps onto its minimal image by "
              "a degree-preserving morphism, that the image admits NO proper degree-respecting congruence (over all "
              "symbolic partitions: no proper quotient, hence its size is the number of classes of the coarsest "
              "congruence), that is_minimal() is true exactly when the symbol itself admits none, and that a symbol "
              "and each of its covers have isomorphic minimal images. Outside the claim: larger symbols, 3D symbols "
              "for part (2), other implementors of DSet for part (1) beyond the generic code they share."),
        note=("Part (2): input symbols are enumerated (checked output of the generators of C06 / C07 and of covers(), "
              "C05), not symbolic; the solver's for-all is over partitions of the chambers and over maps.")),
    "C05": dict(
        design_ref="DESIGN.md §4 C05",
        engine="gen5",
        quick_cmd="python3 engine/gen5.py check --tier quick",
        thorough_cmd="python3 engine/gen5.py check --tier thorough",
        replay="python3 engine/gen5.py replay {path}",
        technique=("two parts, one evidence file: (1) bounded symbolic execution of derived::cover (Kani codegen -> CBMC, "
                   "engine kc) for every valid base symbol and every admissible sheet map; (2) covers() and "
                   "oriented_cover() executed from the current tree on every 2D symbol of a bounded universe, with the "
                   "counting clause decided by SMT (z3 QF_BV): unsat(exists a connected s-sheeted covering of the base "
                   "that is isomorphic over the base to no listed cover); counterexamples replayed natively"),
        text=("PARTIAL. (1) Bounded model checking of derived::cover — the one construction through which every cover "
              "constructor builds its result — for EVERY valid base D-symbol of the given shape and EVERY admissible "
              "sheet map: sheets x base chambers, operations lie over the base operations on the prescribed sheets and "
              "are involutions, degrees preserved, r the true orbit length, complete (2 sheets over 1 chamber in "
              "dimension 2 quick; 3 sheets, 2 chambers, dimension 3 thorough, stretch). (2) For every 2D symbol the "
              "D-symbol generator yields on D-sets of at most 4 (thorough: 5) chambers — 236 (318) base symbols — the "
              "real covers(B, 3) and oriented_cover(B) are run: every returned cover is complete, connected, its "
              "projection commutes with every operation, preserves every degree and has equal fibres (ground); the "
              "oriented cover is oriented with one sheet if B is oriented and two otherwise (ground); and the list of "
              "covers has exactly one entry per class: the solver shows, over ALL symbolic sheet maps, that every "
              "connected s-sheeted covering of B (s <= 3) is isomorphic over B to a listed cover, and no two listed "
              "covers are isomorphic over B. NOT decided: subgroup_cover / finite_universal_cover beyond what they "
              "share with covers() (cover_for_table, cover; coset_table is the C11 check), 'the universal cover has a "
              "trivial fundamental group', 3D symbols, larger bases / more sheets."),
        note=("The counting clause is stated through covering-space theory (conjugacy classes of subgroups of index s of "
              "the orbifold group = connected s-sheeted coverings up to isomorphism over the base), so it does not use "
              "the crate's fundamental group or coset enumeration as an oracle. Base symbols are enumerated (the checked "
              "output of the generators of C06 / C07), not symbolic; the solver's for-all is over sheet maps.")),
    "C06": dict(
        design_ref="DESIGN.md §4 C06",
        engine="gen6",
        quick_cmd="python3 engine/gen6.py check --tier quick",
        thorough_cmd="python3 engine/gen6.py check --tier thorough",
        replay="python3 engine/gen6.py replay {path}",
        technique=("the generator has no data input (its parameters are the bound), so each configuration is executed "
                   "once from the current tree; the universally quantified part — over ALL D-sets of each size — is "
                   "decided by SMT (z3 QF_BV, every completeness verdict re-run with cvc5): unsat(exists a valid "
                   "connected commuting D-set isomorphic to no output), unsat(exists an isomorphism between two "
                   "outputs); sat models are replayed natively against the real generator"),
        text=("For every configuration (dim, max_size) of the tier — (1,7), (2,6), (3,5), (4,4) quick; (1,9), (2,7), "
              "(3,6), (4,5), (5,4) thorough — the real DSets generator built from the current tree is run and its output list is "
              "turned into constants; an SMT solver then decides, over the whole universe of D-sets of each size "
              "<= max_size (symbolic tuples of involutions: complete, connected, non-adjacent operations commute), "
              "that none is missing (completeness) and, over all symbolic bijections, that no two outputs are "
              "isomorphic (irredundancy). Soundness of each output (complete, connected, commuting, size bound, "
              "numbered consecutively) is a ground check of the constants."),
        note=("The implementation side has no symbolic variable because the generator has no input beyond the bound; "
              "nothing of the generator is modelled. The for-all of the property (every D-set of the universe, every "
              "bijection) is the solver's. Trusted base: rustc (dev profile), z3 4.8.12 / cvc5 1.0, the QF_BV "
              "encoding of 'valid connected commuting D-set' and 'isomorphism' in engine/gen6.py, and the native "
              "replay driver native/verif_c06.rs. Outside the claim: larger sizes / dimensions.")),
    "C07": dict(
        design_ref="DESIGN.md §4 C07",
        engine="gen7",
        quick_cmd="python3 engine/gen7.py check --tier quick",
        thorough_cmd="python3 engine/gen7.py check --tier thorough",
        replay="python3 engine/gen7.py replay {path}",
        technique=("the generator is executed from the current tree on every 2D D-set up to the size bound (the output of "
                   "the C06-checked D-set generator) and every geometry; the universally quantified part — over ALL "
                   "branching assignments of each D-set — is decided by SMT (z3 QF_LIRA with exact rational curvature, "
                   "every 7th verdict re-run with cvc5): unsat(exists an admissible assignment of the requested "
                   "geometry that is equivalent under no automorphism to an output); sat models are re-evaluated with "
                   "exact rationals against a fresh native run before they are reported"),
        text=("For every connected complete 2D D-set with at most 7 (thorough: 8) chambers and each of the four "
              "geometry settings the real DSyms generator is run. Ground, per output: it lives on the input D-set, "
              "branching constant on 2-orbits, every degree >= 3, curvature of the requested sign (exact rationals), "
              "spherical outputs have branching <= 7 and an orbifold on the list of good orbifolds, hyperbolic outputs "
              "are minimally hyperbolic, no two outputs equivalent under an automorphism of the D-set, numbered "
              "consecutively, 'all' = disjoint union of the three. By the solver, per D-set and geometry, over ALL "
              "integer branching assignments with degrees >= 3 (up to 43): every curvature-zero assignment / every "
              "minimally hyperbolic assignment / every good spherical assignment with branching <= 7 is equivalent "
              "under an automorphism to an output. Outside the claim: larger D-sets, branching numbers above 43."),
        note=("Orbits, automorphisms, exact curvature and the orbifold symbol are recomputed in engine/gen7.py, "
              "independently of the crate; the list of good spherical orbifolds is the one the property names ('the "
              "generator's fixed list'), transcribed. The inputs are the D-sets produced by the D-set generator, whose "
              "completeness up to the same size is the C06 check. Trusted base: rustc (release), z3 4.8.12 / cvc5 1.0, "
              "the encoding in engine/gen7.py.")),
    "C09": dict(
        design_ref="DESIGN.md §4 C09",
        engine="gen9",
        quick_cmd="python3 engine/gen9.py check --tier quick",
        thorough_cmd="python3 engine/gen9.py check --tier thorough",
        replay="python3 engine/gen9.py replay {path}",
        technique=("fundamental_group() executed from the current tree on every 2D symbol of a bounded universe; 'the "
                   "presentation with its edge words presents the orbifold group' decided by SMT (z3 QF_BV, every 13th "
                   "verdict re-run with cvc5) through permutation representations of small degree: unsat(an action of "
                   "the presentation whose induced sheet map is not a covering of the symbol), unsat(a covering of the "
                   "symbol that the edge words do not reproduce or whose permutations violate a relator), with a "
                   "satisfiability guard against vacuity; models re-evaluated exactly against a fresh native run"),
        text=("PARTIAL. For every 2D symbol the D-symbol generator yields on D-sets of at most 4 (thorough: 5) chambers — "
              "236 (318) symbols, those with at most 3 (4) chambers also in every renumbering of their chambers — the real fundamental_group is run and its relators, generator edges and edge words are "
              "turned into constants. For every degree s <= 3 the solver decides, over ALL tuples of symbolic "
              "permutations and ALL symbolic sheet maps, that the permutation representations of the presentation are "
              "exactly the s-sheeted coverings of the symbol (sheets transported along the spanning tree), related "
              "through the edge words: this makes the property's own proposal — equal numbers of subgroup classes of "
              "each small index as the orbifold group — exact, without using the crate's coset enumeration. Ground: "
              "every generator on exactly one facet pair, the two sides of a facet carry mutually inverse words, all "
              "words and relators freely reduced, cones well formed. NOT decided: 3D symbols, degrees above 3, the "
              "exact cone list, finite orders."),
        note=("Base symbols are enumerated (checked output of the generators of C06 / C07), not symbolic; the solver's "
              "for-all is over permutation tuples and sheet maps. Agreement on permutation representations of degree "
              "<= 3 does not prove isomorphism of the groups; it is the bounded form of the property's subgroup-count "
              "clause. Trusted base: rustc (release), z3 4.8.12 / cvc5 1.0, the encoding in engine/gen9.py.")),
    "C10": dict(
        design_ref="DESIGN.md §4 C10",
        text=("Bounded model checking of every FreeWord operation (new/from/empty, six product forms, *=, inverse, "
              "raised_to, commutator, rotated, Ord, ==, relator_representative) against an array oracle for all "
              "words over 2 generators (3 for the order) with operands of <= 2 letters (quick; rotation <= 5; "
              "commutator, associativity and relator_representative only in the thorough tier) / <= 3 letters "
              "(thorough). relator_permutations (BTreeSet) is excluded."),
        note=("Decided: reducedness, equality with the oracle free reduction, group laws, strict total order, relator "
              "representative = least rotation/inverse rotation. Not decided: relator_permutations, longer words.")),
    "C11": dict(
        design_ref="DESIGN.md §4 C11",
        engine="gen11",
        quick_cmd="python3 engine/gen11.py check --tier quick",
        thorough_cmd="python3 engine/gen11.py check --tier thorough",
        replay="python3 engine/gen11.py replay {path}",
        technique=("input-free configurations (parameter-only presentation family x subgroup pattern) are executed once "
                   "from the current tree; validity of the returned table and representatives is a ground formula over "
                   "the constants; 'exactly [G:H] rows' is decided by SMT (z3 QF_BV, re-run with cvc5): "
                   "unsat(exists a transitive action on more points that satisfies the relators with the subgroup "
                   "fixing a point), for every size up to the stated bound; sat models are replayed natively"),
        text=("PARTIAL. For 35 (thorough: 61) input-free configurations — dihedral, cyclic, finite and free abelian, free, "
              "triangle and surface groups with subgroup patterns such as trivial / whole group / <g1> / <g2> / <g1 g2> / "
              "<g^m> / <g1 g2 g1, g2> / <g2^3> / <[g1,g2]> — the real coset_table and coset_representative built from the current tree are "
              "run; every generator acts as a permutation whose inverse is the action of the inverse generator, the "
              "action is transitive, every relator traced from every row returns, every subgroup generator traced "
              "from row 0 returns to row 0, every representative traced from row 0 ends in its row (ground checks), "
              "and the table has exactly [G:H] rows: a valid table has at most [G:H] rows, and the solver shows that "
              "no transitive action on more points (up to 8) satisfies the relators with the subgroup "
              "fixing a point. NOT decided: arbitrary presentations and subgroup words."),
        note=("coset_table's code is never modelled: for an input-free configuration its execution is a plain run; the "
              "solver's part is the index. Trusted base: rustc (release profile), z3 4.8.12 / cvc5 1.0, the QF_BV "
              "encoding in engine/gen12.py + gen11.py, native/verif_c11.rs. Four defects found by this check were "
              "repaired in /repo (fix: commits e3c92cb, b94bde8, f87fc90, 667abfa).")),
    "C12": dict(
        design_ref="DESIGN.md §4 C12",
        engine="gen12",
        quick_cmd="python3 engine/gen12.py check --tier quick",
        thorough_cmd="python3 engine/gen12.py check --tier thorough",
        replay="python3 engine/gen12.py replay {path}",
        technique=("input-free configurations (parameter-only presentation families x index bound) are executed once "
                   "from the current tree; the universally quantified part — over ALL transitive permutation actions "
                   "satisfying the relators, i.e. all conjugacy classes of subgroups — is decided by SMT (z3 QF_BV, "
                   "completeness verdicts re-run with cvc5): unsat(exists an action equivalent to no output table), "
                   "unsat(exists an equivalence between two output tables); sat models are replayed natively"),
        text=("PARTIAL. For presentations determined by integer parameters alone — free groups F_1..F_3 (F_4), free "
              "abelian Z^2, Z^3 (Z^4), dihedral D_3, D_4 (D_5, D_6), cyclic C_6 (C_8), the genus-2 surface group, "
              "triangle groups (2,3,3), (2,3,7) (and (2,3,4), (2,3,5), (2,3,6), (2,4,4)), <a,b | a, b^m> (a generator "
              "declared trivial) and <a,b,c | c a^m, c^-1 b> (redundant generators) — and index bounds k of 3..8, "
              "the real coset_tables enumeration built from the current tree is run and its tables are turned into "
              "constants; an SMT solver decides over the whole universe of transitive actions on r <= k points that "
              "satisfy the relators (symbolic permutations) that each is equivalent to an output table (every "
              "conjugacy class of subgroups of index <= k is represented) and, over all symbolic bijections, that no "
              "two output tables are equivalent. Completeness and validity of each table (complete, permutations with "
              "consistent inverse columns, transitive, relators fix every row, <= k rows) are ground checks. NOT "
              "decided: arbitrary presentations (symbolic relator words), in particular fundamental groups of "
              "D-symbols, and larger indices."),
        note=("The enumeration's code is never modelled: for an input-free configuration its execution is a plain run. "
              "The for-all of the property (every subgroup class, every renumbering) is the solver's. Trusted base: "
              "rustc (release profile), z3 4.8.12 / cvc5 1.0, the QF_BV encoding of 'transitive action satisfying the "
              "relators' and 'equivalent actions' in engine/gen12.py, the native replay driver native/verif_c12.rs. "
              "The presentation families are a fixed list: a defect that needs a presentation outside the list is "
              "not seen.")),
    "C14": dict(
        design_ref="DESIGN.md §4 C14",
        text=("Bounded model checking of gcdx (|a|,|b| <= 12 / 40), diagonalize_in_place (determinantal divisors "
              "preserved, diagonal non-negative; 1x2, 2x1 entries <= 3 and 2x2 entries <= 1 quick; 2x2 entries <= 2..6, "
              "2x3, 3x2 thorough), "
              "relator_as_vector algebra and abelian_invariants end to end against the closed-form invariant "
              "factors (min(relators, generators) <= 2; diagonal 3x3 thorough)."),
        note=("Invariance under inverting/rotating/conjugating relators and adding products is decided on "
              "relator_as_vector plus the row-lattice oracle. Not decided: general matrices with >= 3 rows and "
              "columns, large entries (overflow).")),
    "C18": dict(
        design_ref="DESIGN.md §4 C18",
        text=("Model checking of the real compiled code within stated bounds: residue classes for ALL i64/i32 "
              "inputs and all pairs of canonical representatives (P = 2, 7, 3037000493); Matrix and VecMatrix over "
              "i64 and Z/7 for the shapes 1x1, 1x2, 2x1 (quick), 2x2, 1x3, 3x1, 2x3, 3x2, 3x3 determinant "
              "(thorough) with small symbolic entries. PARTIAL: BigRational / f64 back ends, "
              "modular_solver::solve, PeriodicGraph::position and the >= 4x4 echelon determinant are NOT decided."),
        note=("Decided clauses: canonical residues + field laws; rank/determinant/null space/solve/inverse exact "
              "and panic-free per shape. Not decided: BigRational, p-adic solver, pgraphs client, entries up to 1e9.")),
    "C20": dict(
        design_ref="DESIGN.md §4 C20",
        text=("Bounded model checking of ONE INDUCTIVE STEP of IntPartition from an arbitrary state satisfying the "
              "union-by-rank representation invariant: find / unite / clone(+union on either side) with symbolic "
              "arguments keep a forest and change the induced partition exactly as specified, representatives are "
              "stable; new() and lazy growth establish the invariant. unite: 3 elements, find and clone: 2 elements "
              "(+1 grown) quick; find/clone 3, find/unite 4 elements thorough; "
              "histories of any length follow by induction. PARTIAL: the generic Partition<T> (HashMap index) and "
              "classes() are NOT decided."),
        note=("The invariant is an over-approximation of the reachable states; failure to preserve its rank clause "
              "alone is reported as inconclusive (labels C20.INV.*), semantic clauses as violations.")),
}

NOT_APPLICABLE = {
    "C03": "canonical form runs through Traversal (HashSet + BTreeMap + VecDeque): symbolic execution does not finish for ONE chamber even on an array-backed D-set (re-measured in round 2); the property quantifies over renumberings of the INPUT, so running the code on enumerated inputs would leave no solver verdict",
    "C08": "curvature/orbifold_symbol go through Traversal, oriented_cover, HashSet and String (symbolic execution out of reach); with enumerated input symbols every clause (Gauss-Bonnet identity, invariances, geometry class) is a ground computation with no solver verdict in it, i.e. another technique",
    "C13": "HashMap/HashSet keyed by Vec<usize> (symbolic execution out of reach); run on the coset tables of the C12 configurations every obligation about core / intersection tables reduces to a ground orbit computation, and the stabiliser clause needs a group-isomorphism oracle: no solver verdict to report",
    "C15": "whole pipeline (covers, coset tables, stabiliser, invariants) on symbols with tens of chambers",
    "C16": "whole pipeline on symbols with hundreds of chambers; HashSet iteration order inside network_cut",
    "C17": "whole pipeline; verdict invariance over renumberings/covers is a statement about all stages together",
    "C19": "BTreeSet/BTreeMap throughout min_edge_cut/augment: min_edge_cut on 2 vertices and 1 symbolic edge gave no verdict in 1500 s on the block-allocator back end (round 2); the inputs (graphs) must be symbolic, so the input-free scheme does not apply",
}

PENDING = {}


def main():
    checks = []
    for pid in sorted(CLAIMED):
        c = CLAIMED[pid]
        checks.append({
            "property_id": pid,
            "quick_cmd": c.get("quick_cmd", "python3 engine/kc.py check %s --tier quick" % pid),
            "thorough_cmd": c.get("thorough_cmd", "python3 engine/kc.py check %s --tier thorough" % pid),
            "evidence_file": "evidence/%s.json" % pid,
            "replay_cmd_template": c.get("replay", "python3 engine/kc.py replay {path}"),
            "engine": c.get("engine", "kc"),
            "level_claimed": {"category": "model_checking", "text": c["text"],
                              "design_ref": c["design_ref"]},
            "level_note": c["note"] + ("" if (c.get("engine") and pid not in ("C04", "C05")) else LEVEL_NOTE_COMMON),
            "technique": c.get("technique", TECH),
        })
    na = dict(NOT_APPLICABLE)
    na.update(PENDING)
    m = {
        "version": 1,
        "setup_cmd": "python3 engine/kc.py setup",
        "hooks": {
            "guard": "cfg(any(kani, verif_replay)) — applied only to the scratch copy of /repo that each "
                     "check stages; no hook is committed to /repo",
            "enable": "engine/kc.py rsyncs /repo's working tree to /var/tmp/verif-<prop>-<pid>/repo and appends "
                      "`#[cfg(any(kani, verif_replay))] #[path=\"/verif/harness/<f>.rs\"] mod verif_<f>;` to the "
                      "module each harness belongs to; Kani sets cfg(kani), the native replay build passes "
                      "--cfg verif_replay",
            "baseline_off_cmd": "cd /repo && cargo test --workspace --no-fail-fast --offline",
            "source_commits": [],
            "add_only": True,
        },
        "engines": [{
            "name": "kc",
            "path": "engine/kc.py",
            "serves_properties": sorted(k for k in CLAIMED if not CLAIMED[k].get("engine") or k in ("C04", "C05")),
            "kind_free_text": "Kani 0.68 code generation of the real crate + own goto-cc/goto-instrument link "
                              "against a fixed-block allocator model + CBMC 6.11 (CaDiCaL / z3), witness "
                              "extraction and native replay",
        }, {
            "name": "gen6",
            "path": "engine/gen6.py",
            "serves_properties": ["C06"],
            "kind_free_text": "native run of the input-free generator from the current tree + SMT-LIB (QF_BV) queries over "
                              "the universe of D-sets and over bijections, z3 with cvc5 cross-check, native replay",
        }, {
            "name": "gen4",
            "path": "engine/gen4.py",
            "serves_properties": ["C04"],
            "kind_free_text": "runs kc on harness/c04_morphism.rs (symbolic execution of morphism / automorphisms) and, natively, "
                              "minimal_image / is_minimal on every 2D symbol and cover of a bounded universe with SMT-LIB (QF_BV) "
                              "queries over partitions and maps; one evidence file",
        }, {
            "name": "gen5",
            "path": "engine/gen5.py",
            "serves_properties": ["C05"],
            "kind_free_text": "runs kc on harness/c05_cover.rs (symbolic execution of derived::cover) and, natively, covers() / "
                              "oriented_cover() on every 2D symbol of a bounded universe with SMT-LIB (QF_BV) completeness "
                              "queries over all sheet maps; one evidence file",
        }, {
            "name": "gen7",
            "path": "engine/gen7.py",
            "serves_properties": ["C07"],
            "kind_free_text": "native run of the D-symbol generator on every 2D D-set up to the size bound + ground checks with "
                              "exact rationals + SMT-LIB (QF_LIRA) completeness queries over all branching assignments, z3 "
                              "with cvc5 cross-check",
        }, {
            "name": "gen9",
            "path": "engine/gen9.py",
            "serves_properties": ["C09"],
            "kind_free_text": "native run of fundamental_group on every 2D symbol of a bounded universe + SMT-LIB (QF_BV) "
                              "queries relating permutation representations of the presentation to coverings of the symbol",
        }, {
            "name": "gen11",
            "path": "engine/gen11.py",
            "serves_properties": ["C11"],
            "kind_free_text": "native run of coset_table / coset_representative on input-free configurations from the "
                              "current tree + ground validity + SMT-LIB (QF_BV) 'no larger transitive action' queries, "
                              "z3 with cvc5 cross-check, native replay",
        }, {
            "name": "gen12",
            "path": "engine/gen12.py",
            "serves_properties": ["C12"],
            "kind_free_text": "native run of coset_tables on input-free configurations from the current tree + SMT-LIB (QF_BV) "
                              "queries over all transitive permutation actions and over bijections, z3 with cvc5 "
                              "cross-check, native replay",
        }],
        "checks": checks,
        "not_applicable": [{"property_id": k, "reason": na[k]} for k in sorted(na)],
        "notes": "See DESIGN.md. Exit 2 of a check means inconclusive (timeout / memory / bound too small / "
                 "vacuous harness / non-reproducing counterexample): never a pass, never a VIOLATION. "
                 "known_findings.txt holds finding:/fixed: lines.",
    }
    (VERIF / "MANIFEST.json").write_text(json.dumps(m, indent=1) + "\n")
    print("MANIFEST.json: %d checks, %d not applicable" % (len(checks), len(na)))


if __name__ == "__main__":
    main()
