#!/usr/bin/env python3
"""gen4 — the minimal-image clauses of property C04 on every 2D D-symbol of a bounded universe.
(`DSet::morphism` / `automorphisms` are model-checked symbolically by harness/c04_morphism.rs
through the kc engine; `gen4.py check` runs both parts concurrently and writes one evidence file.)

    gen4.py check [--tier quick|thorough] [--no-kc]
    gen4.py replay <replay.json>

Inputs: every symbol B the (C07-checked) D-symbol generator yields on the 2D D-sets with at most n
chambers, and every cover Y of covers(B, k) (C05-checked).  The real `minimal_image` and
`is_minimal`, built from the CURRENT tree, are run on all of them; results become constants.
Decided by z3 (QF_BV), with symbolic PARTITIONS and symbolic MAPS as the quantified objects:

  (Q) the input maps onto its minimal image:  sat( f: chambers(S) -> chambers(M) commutes with every operation,
      preserves every degree, is onto ) — the model is the morphism;
  (N) the minimal image admits no proper quotient:  unsat( c: a labelling of the chambers of M with
      c(d) = c(e) => c(op_i d) = c(op_i e) and equal degrees, and c(d) = c(e) for some d != e );
      with (Q) this pins down |M| as the number of classes of the coarsest degree-respecting congruence;
  (F) is_minimal(S) is true exactly when S itself admits no proper quotient: the same query on S,
      expected unsat iff the flag is set;
  (C) a symbol and each of its covers have isomorphic minimal images:  sat( bijection M(Y) -> M(B) commuting
      with the operations and preserving the degrees ).
Ground: the minimal image is a complete symbol with degrees that are multiples of its orbit lengths.
Exit 0 / 1 (VIOLATION, models re-evaluated exactly) / 2 (inconclusive).
"""
import argparse
import hashlib
import json
import os
import shutil
import subprocess
import sys
import time
from pathlib import Path

sys.path.insert(0, str(Path(__file__).resolve().parent))
from gen6 import run_solver, Z3, parse_values, log, ENV, VERIF, REPO, OUT, SCRATCH_ROOT, CACHE  # noqa
from gen5 import parse_sym, orbit_len  # noqa

TIERS = {"quick": (4, 2), "thorough": (5, 3)}      # (max chambers of the base symbol, max sheets of the covers)
CAP = {"quick": 120, "thorough": 900}
BV = 5
CVC5 = ["cvc5", "--lang", "smt2", "--produce-models"]


def bv(x):
    return "(_ bv%d %d)" % (x, BV)


def build_native(scratch):
    repo = scratch / "repo"
    subprocess.check_call(["rsync", "-a", "--delete", "--exclude", "/target", "--exclude", "/.git",
                           str(REPO) + "/", str(repo) + "/"])
    (repo / "examples").mkdir(exist_ok=True)
    shutil.copy(VERIF / "native/verif_c04.rs", repo / "examples/verif_c04.rs")
    target = scratch / "target"
    src = CACHE / "native-target"
    if src.exists():
        subprocess.call(["cp", "-a", "--reflink=auto", str(src), str(target)])
    t0 = time.time()
    p = subprocess.run(["cargo", "build", "--offline", "--release", "--example", "verif_c04",
                        "--target-dir", str(target)], cwd=repo, env=ENV, stdout=subprocess.PIPE, stderr=subprocess.STDOUT)
    if p.returncode != 0:
        errs = [l for l in p.stdout.decode(errors="replace").splitlines() if l.startswith("error")]
        return None, "\n".join(errs[:10]), time.time() - t0
    return target / "release/examples/verif_c04", "", time.time() - t0


def run_dump(exe, n, k, timeout=900):
    try:
        p = subprocess.run([str(exe), "dump", str(n), str(k)], stdout=subprocess.PIPE, stderr=subprocess.PIPE, timeout=timeout)
    except subprocess.TimeoutExpired:
        return None, "minimal_image did not terminate within %ds" % timeout
    if p.returncode != 0:
        msg = p.stderr.decode(errors="replace").strip().splitlines()
        return None, "minimal_image / is_minimal crashed (rc=%d): %s" % (p.returncode, " | ".join(msg[:3]))
    bases, end = [], None
    for line in p.stdout.decode().splitlines():
        t = line.split()
        if t[0] == "END":
            end = int(t[1])
        elif t[0] == "F":
            bases[-1]["flag"] = t[1] == "1"
        else:
            s = parse_sym(t)
            if s is None:
                return None, "malformed dump line"
            if t[0] == "B":
                s.update({"min": None, "flag": None, "covers": []})
                bases.append(s)
            elif t[0] == "M":
                bases[-1]["min"] = s
            elif t[0] == "Y":
                bases[-1]["covers"].append([s, None])
            elif t[0] == "N":
                bases[-1]["covers"][-1][1] = s
    if end != len(bases):
        return None, "truncated dump"
    return bases, ""


def well_formed(S, what):
    n = S["size"]
    if n < 1:
        return ["%s is empty" % what]
    for i in range(3):
        for d in range(1, n + 1):
            e = S["ops"][i][d - 1]
            if e < 1 or e > n or S["ops"][i][e - 1] != d:
                return ["%s: op %d is not an involution at %d" % (what, i, d)]
    for i in range(2):
        for d in range(1, n + 1):
            r = orbit_len(S["ops"], i, d)
            if r == 0 or S["ms"][i][d - 1] < 1 or S["ms"][i][d - 1] % r != 0:
                return ["%s: degree %d at chamber %d is not a multiple of the orbit length %d" % (what, S["ms"][i][d - 1], d, r)]
    return []


def map_query(A, B, bijective):
    """exists f: A -> B commuting with the operations, preserving the degrees, onto (or bijective)"""
    na, nb = A["size"], B["size"]
    L = ["(set-logic QF_BV)"]
    F = ["f_%d" % d for d in range(na)]
    for d in range(na):
        L.append("(declare-const %s (_ BitVec %d))" % (F[d], BV))
        L.append("(assert (bvult %s %s))" % (F[d], bv(nb)))

    def b_op(i, term):
        res = bv(B["ops"][i][nb - 1] - 1)
        for e in range(nb - 2, -1, -1):
            res = "(ite (= %s %s) %s %s)" % (term, bv(e), bv(B["ops"][i][e] - 1), res)
        return res

    def b_m(i, term):
        res = bv(B["ms"][i][nb - 1])
        for e in range(nb - 2, -1, -1):
            res = "(ite (= %s %s) %s %s)" % (term, bv(e), bv(B["ms"][i][e]), res)
        return res
    for d in range(na):
        for i in range(3):
            L.append("(assert (= %s %s))" % (F[A["ops"][i][d] - 1], b_op(i, F[d])))
        for i in range(2):
            L.append("(assert (= %s %s))" % (b_m(i, F[d]), bv(A["ms"][i][d])))
    for e in range(nb):
        L.append("(assert (or %s))" % " ".join("(= %s %s)" % (F[d], bv(e)) for d in range(na)))
    if bijective and na > 1:
        L.append("(assert (distinct %s))" % " ".join(F))
    L.append("(check-sat)")
    L.append("(get-value (%s))" % " ".join(F))
    return "\n".join(L) + "\n", F


def quotient_query(S):
    """exists a proper degree-respecting congruence on S"""
    n = S["size"]
    L = ["(set-logic QF_BV)"]
    C = ["c_%d" % d for d in range(n)]
    for d in range(n):
        L.append("(declare-const %s (_ BitVec %d))" % (C[d], BV))
    for d in range(n):
        for e in range(d + 1, n):
            same = "(= %s %s)" % (C[d], C[e])
            for i in range(3):
                L.append("(assert (=> %s (= %s %s)))" % (same, C[S["ops"][i][d] - 1], C[S["ops"][i][e] - 1]))
            if any(S["ms"][i][d] != S["ms"][i][e] for i in range(2)):
                L.append("(assert (not %s))" % same)
    pairs = ["(= %s %s)" % (C[d], C[e]) for d in range(n) for e in range(d + 1, n)]
    L.append("(assert (or false %s))" % " ".join(pairs))
    L.append("(check-sat)")
    L.append("(get-value (%s))" % " ".join(C))
    return "\n".join(L) + "\n", C


def is_congruence(S, c):
    n = S["size"]
    proper = False
    for d in range(n):
        for e in range(d + 1, n):
            if c[d] == c[e]:
                proper = True
                if any(c[S["ops"][i][d] - 1] != c[S["ops"][i][e] - 1] for i in range(3)):
                    return False
                if any(S["ms"][i][d] != S["ms"][i][e] for i in range(2)):
                    return False
    return proper


def is_morphism(A, B, f, bijective):
    na, nb = A["size"], B["size"]
    if any(not (0 <= x < nb) for x in f) or set(f) != set(range(nb)):
        return False
    if bijective and len(set(f)) != na:
        return False
    for d in range(na):
        if any(f[A["ops"][i][d] - 1] != B["ops"][i][f[d]] - 1 for i in range(3)):
            return False
        if any(B["ms"][i][f[d]] != A["ms"][i][d] for i in range(2)):
            return False
    return True


def ask(text, cap, ev):
    out, secs = run_solver(Z3, text, cap)
    ev["solver_s"] += secs
    ev["queries"] += 1
    return ((out or "timeout").split() or [""])[0], out or ""


def check_base(B, cap, ev):
    viol, inc = [], []
    base = {"symbol": {"size": B["size"], "ops": B["ops"], "ms": B["ms"]}}
    items = [("symbol", B, B["min"], B["flag"])] + [("cover %d" % k, Y, N, None) for k, (Y, N) in enumerate(B["covers"])]
    for (tag, S, M, flag) in items:
        ev["ground"] += 1
        if M is None:
            viol.append(dict(base, kind="ground", what="no minimal image returned for the %s" % tag))
            continue
        bad = well_formed(M, "minimal_image(%s)" % tag)
        if bad:
            viol.append(dict(base, kind="ground", what=bad[0]))
            continue
        # (Q) S maps onto M
        text, F = map_query(S, M, False)
        first, out = ask(text, cap, ev)
        if first == "sat":
            f = [parse_values(out).get(x, -1) for x in F]
            if is_morphism(S, M, f, False):
                ev["models_checked"] += 1
            else:
                inc.append("solver model for (Q) is not a morphism (%s of %s)" % (tag, B["ops"]))
        elif first == "unsat":
            ev["unsat_bad"] += 1
            viol.append(dict(base, kind="Q", subject=tag, image={"size": M["size"], "ops": M["ops"], "ms": M["ms"]},
                             what="no degree-preserving morphism maps the %s onto its minimal image (%d -> %d chambers)"
                                  % (tag, S["size"], M["size"])))
        else:
            inc.append("solver said %r for (Q) (%s of %s)" % (first[:20], tag, B["ops"]))
        # (N) M has no proper quotient
        text, C = quotient_query(M)
        first, out = ask(text, cap, ev)
        if first == "unsat":
            ev["unsat"] += 1
        elif first == "sat":
            c = [parse_values(out).get(x, -1) for x in C]
            viol.append(dict(base, kind="N", subject=tag, image={"size": M["size"], "ops": M["ops"], "ms": M["ms"]}, labels=c,
                             what="minimal_image(%s) has %d chambers but admits the proper degree-respecting congruence %s"
                                  % (tag, M["size"], c)))
        else:
            inc.append("solver said %r for (N) (%s of %s)" % (first[:20], tag, B["ops"]))
        # (F) is_minimal
        if flag is not None:
            text, C = quotient_query(S)
            first, out = ask(text, cap, ev)
            if first not in ("sat", "unsat"):
                inc.append("solver said %r for (F) (%s)" % (first[:20], B["ops"]))
            elif (first == "unsat") != flag:
                c = [parse_values(out).get(x, -1) for x in C] if first == "sat" else []
                viol.append(dict(base, kind="F", flag=flag, labels=c,
                                 what="is_minimal() = %s but the symbol %s a proper degree-respecting congruence %s"
                                      % (flag, "admits" if first == "sat" else "admits no", c)))
            else:
                ev["unsat" if first == "unsat" else "models_checked"] += 1
        # (C) the cover's minimal image is isomorphic to the base's
        if flag is None and B["min"] is not None:
            if M["size"] != B["min"]["size"]:
                viol.append(dict(base, kind="C", subject=tag, what="minimal image of the %s has %d chambers, that of the base %d"
                                                                   % (tag, M["size"], B["min"]["size"])))
            else:
                text, F = map_query(M, B["min"], True)
                first, out = ask(text, cap, ev)
                if first == "sat":
                    ev["models_checked"] += 1
                elif first == "unsat":
                    viol.append(dict(base, kind="C", subject=tag,
                                     what="the minimal images of the %s and of the base are not isomorphic" % tag))
                else:
                    inc.append("solver said %r for (C) (%s of %s)" % (first[:20], tag, B["ops"]))
    return viol, inc


def replay_native(exe, v, n, k):
    bases, err = run_dump(exe, n, k)
    if bases is None:
        return "CONFIRMED ground: " + err
    b = v["symbol"]
    B = next((x for x in bases if x["ops"] == b["ops"] and x["ms"] == b["ms"]), None)
    if B is None:
        return "REFUTED the symbol is not an input of this configuration"
    ev = {"ground": 0, "solver_s": 0.0, "queries": 0, "unsat": 0, "unsat_bad": 0, "models_checked": 0}
    viol, _ = check_base(B, 60, ev)
    same = [x for x in viol if x["kind"] == v["kind"]]
    if not same:
        return "REFUTED a fresh run does not reproduce the violation"
    w = same[0]
    if w["kind"] == "N" and not is_congruence(w["image"], w["labels"]):
        return "REFUTED the labelling is not a proper congruence"
    if w["kind"] == "F" and w["labels"] and not is_congruence(B, w["labels"]):
        return "REFUTED the labelling is not a proper congruence"
    return "CONFIRMED %s: %s" % (w["kind"], w["what"][:200])


def run_gen(tier, scratch, ev, violations, inconclusive):
    n, k = TIERS[tier]
    exe, err, build_s = build_native(scratch)
    if exe is None:
        inconclusive.append("the tree does not build: " + err[:300])
        return None
    log("[gen4] built native driver from %s in %.0fs" % (REPO, build_s))
    bases, err = run_dump(exe, n, k)
    if bases is None:
        violations.append({"kind": "ground", "symbol": {"size": 0, "ops": [], "ms": []}, "what": err})
        return exe
    for B in bases:
        ev["bases"] += 1
        ev["images"] += 1 + len(B["covers"])
        v, inc = check_base(B, CAP[tier], ev)
        violations.extend(v[:2])
        inconclusive.extend(inc)
        if len(ev["samples"]) < 3 and B["min"] and B["min"]["size"] < B["size"]:
            ev["samples"].append({"symbol": {"ops": B["ops"], "degrees": B["ms"]}, "is_minimal": B["flag"],
                                  "minimal_image": {"ops": B["min"]["ops"], "degrees": B["min"]["ms"]},
                                  "obligation": "sat(morphism onto the image); unsat(proper degree-respecting congruence on the image)"})
    log("[gen4]   symbols up to %d chambers with covers up to %d sheets: %d symbols, %d minimal images, %d queries"
        % (n, k, ev["bases"], ev["images"], ev["queries"]))
    return exe


def new_ev():
    return {"bases": 0, "images": 0, "queries": 0, "unsat": 0, "unsat_bad": 0, "models_checked": 0, "solver_s": 0.0,
            "replays": 0, "ground": 0, "samples": []}


def report(exe, violations, inconclusive, ev, tier):
    n, k = TIERS[tier]
    n_viol = 0
    for v in violations[:10]:
        res = replay_native(exe, v, n, k) if exe else "CONFIRMED ground"
        ev["replays"] += 1
        v["native"] = res
        if not res.startswith("CONFIRMED"):
            inconclusive.append("NON-REPRODUCING counterexample (%s): %s" % (v["what"][:200], res[:200]))
            continue
        rdir = OUT / "replays" / "C04"
        rdir.mkdir(parents=True, exist_ok=True)
        v["max_size"], v["max_sheets"] = n, k
        h = hashlib.sha1(json.dumps(v, sort_keys=True).encode()).hexdigest()[:10]
        rp = rdir / ("gen4-%s-%s.json" % (v["kind"], h))
        rp.write_text(json.dumps(v, indent=1))
        n_viol += 1
        log("VIOLATION property=C04 replay=%s" % rp)
        log("    %s (symbol %s degrees %s): %s" % (v["kind"], v["symbol"]["ops"], v["symbol"]["ms"], v["what"][:300]))
    return n_viol


def run_check(tier, seed, with_kc=True):
    t_start = time.time()
    scratch = SCRATCH_ROOT / ("verif-C04g-%d" % os.getpid())
    if scratch.exists():
        shutil.rmtree(scratch)
    scratch.mkdir(parents=True)
    ev = new_ev()
    violations, inconclusive = [], []
    try:
        kc = None
        if with_kc:
            env = dict(os.environ)
            env["VERIF_OUT"] = str(OUT)
            kc = subprocess.Popen([sys.executable, str(VERIF / "engine/kc.py"), "check", "C04", "--tier", tier],
                                  cwd=VERIF, env=env, stdout=subprocess.PIPE, stderr=subprocess.STDOUT)
        exe = run_gen(tier, scratch, ev, violations, inconclusive)
        n_viol = report(exe, violations, inconclusive, ev, tier)
        kc_ev, kc_rc = {}, 0
        if kc is not None:
            kc_stdout, _ = kc.communicate()
            kc_rc = kc.returncode
            for line in kc_stdout.decode(errors="replace").splitlines():
                if line.startswith(("VIOLATION", "    harness=", "INCONCLUSIVE", "KNOWN-FINDING", "[kc]   ", "[kc] C04")):
                    log(line)
            try:
                kc_ev = json.loads((OUT / "evidence" / "C04.json").read_text())
            except Exception as ex:
                inconclusive.append("no evidence from the kc run: %r" % (ex,))
            if kc_rc == 1:
                n_viol += 1
            elif kc_rc != 0:
                inconclusive.append("kc engine run of harness/c04_morphism.rs inconclusive (exit %d)" % kc_rc)
        for m in inconclusive:
            log("INCONCLUSIVE %s" % m[:400])
        rc = 1 if n_viol else (2 if inconclusive else 0)
        if with_kc:
            write_evidence(tier, seed, ev, kc_ev, n_viol, inconclusive, time.time() - t_start)
        log("[gen4] C04 tier=%s: %d symbols, %d minimal images, %d solver queries (%d unsat, %d models re-checked)%s; "
            "%d violation(s), %d inconclusive, wall %.0fs -> exit %d"
            % (tier, ev["bases"], ev["images"], ev["queries"], ev["unsat"], ev["models_checked"],
               (" + kc exit %d" % kc_rc) if with_kc else "", n_viol, len(inconclusive), time.time() - t_start, rc))
        return rc
    finally:
        shutil.rmtree(scratch, ignore_errors=True)


def write_evidence(tier, seed, ev, kc_ev, n_viol, inconclusive, wall):
    kc_cov = kc_ev.get("coverage", {})
    doc = {
        "property_id": "C04", "tier": tier, "seed": seed, "level": "model_checking",
        "wall_s": round(wall, 1), "violations": n_viol,
        "coverage": {
            "states": max(1, ev["images"]) + int(kc_cov.get("states", 0) or 0),
            "transitions": max(1, ev["queries"]) + int(kc_cov.get("transitions", 0) or 0),
            "traces_validated_against_impl": ev["replays"] + ev["models_checked"] + int(kc_cov.get("traces_validated_against_impl", 0) or 0),
            "obligations": ev["queries"] + ev["ground"] + int(kc_cov.get("obligations", 0) or 0),
            "discharged": ev["unsat"] + ev["models_checked"] + ev["ground"] + int(kc_cov.get("discharged", 0) or 0),
            "samples": (ev["samples"] + list(kc_cov.get("samples", []))[:2]) or [{"note": "nothing completed"}],
            "exhaustive": False,
            "minimal_image": {"symbols": ev["bases"], "minimal_images_checked": ev["images"], "solver_queries": ev["queries"],
                              "unsat": ev["unsat"], "sat_models_rechecked": ev["models_checked"],
                              "solver_seconds": round(ev["solver_s"], 2)},
            "morphism_kani": {k: kc_cov.get(k) for k in ("states", "transitions", "obligations", "discharged", "harnesses",
                                                         "per_harness") if k in kc_cov},
            "functions_encoded": ["derived::minimal_image, DSet::{is_minimal, fold, degrees_match}, util::partitions::Partition — "
                                  "executed from the current tree on every symbol / cover of the configuration; morphisms, "
                                  "bijections and degree-respecting congruences are encoded in QF_BV"]
                                 + list(kc_cov.get("functions_encoded", []))[:40],
            "explanation": "minimal image part: states = minimal images turned into constants, transitions = solver queries; plus the "
                           "counts of the kc run of harness/c04_morphism.rs",
            "inconclusive": inconclusive,
        },
        "assumptions": [
            "minimal image part: symbols = every symbol of DSyms::new(set, All) for every D-set of DSets::new(2, %d), covers = "
            "covers(symbol, %d) (generators and covers checked by C06 / C07 / C05); larger symbols are outside the claim" % TIERS[tier],
            "a quotient of a D-symbol by a congruence whose classes have equal degrees is again a D-symbol (orbit lengths of the "
            "quotient divide those of the symbol), so 'no proper degree-respecting congruence' is 'no proper quotient'",
        ] + list(kc_ev.get("assumptions", []))[:8],
    }
    (OUT / "evidence").mkdir(parents=True, exist_ok=True)
    (OUT / "evidence" / "C04.json").write_text(json.dumps(doc, indent=1) + "\n")


def run_replay(path):
    v = json.loads(Path(path).read_text())
    if "harness" in v:
        return subprocess.call([sys.executable, str(VERIF / "engine/kc.py"), "replay", path], cwd=VERIF)
    scratch = SCRATCH_ROOT / ("verif-C04g-replay-%d" % os.getpid())
    scratch.mkdir(parents=True, exist_ok=True)
    try:
        exe, err, _ = build_native(scratch)
        if exe is None:
            print("build failed:\n" + err)
            return 2
        res = replay_native(exe, v, v.get("max_size", 4), v.get("max_sheets", 2))
        print(res)
        return 1 if res.startswith("CONFIRMED") else 0
    finally:
        shutil.rmtree(scratch, ignore_errors=True)


def main():
    ap = argparse.ArgumentParser()
    sub = ap.add_subparsers(dest="cmd", required=True)
    c = sub.add_parser("check")
    c.add_argument("--tier", default=os.environ.get("VERIF_TIER", "quick"), choices=["quick", "thorough"])
    c.add_argument("--no-kc", action="store_true")
    r = sub.add_parser("replay")
    r.add_argument("path")
    a = ap.parse_args()
    if a.cmd == "check":
        sys.exit(run_check(a.tier, int(os.environ.get("VERIF_SEED", "0") or 0), with_kc=not a.no_kc))
    sys.exit(run_replay(a.path))


if __name__ == "__main__":
    main()
