#!/usr/bin/env python3
"""gen7 — check of property C07 (D-symbol generator: sound, irredundant, complete per geometry).

    gen7.py check [--tier quick|thorough]
    gen7.py replay <replay.json>

Configuration = a size bound n: the inputs of `DSyms::new(dset, geometry)` are EVERY connected
complete 2-dimensional D-set with at most n chambers (the output of the D-set generator, whose
completeness is the subject of the C06 check) crossed with the four geometry settings.  For each
of them the real generator, built from the CURRENT tree, is run and its output becomes constants.
The universally quantified part of C07 — over ALL branching assignments of a D-set — is decided
by an SMT solver (z3, QF_LIRA; verdicts re-run with cvc5):

  euclidean     unsat( v integer, m = r*v >= 3 on every 2-orbit, v <= VMAX, curvature(v) = 0,
                       v is equivalent under NO automorphism of the D-set to an output )
  hyperbolic    unsat( curvature(v) < 0  and  for every orbit i with v_i above its minimum:
                       curvature(v with v_i - 1) >= 0,  and v equivalent to no output )
  curvature(v) = sum over the (0,1)- and (1,2)-orbits of k_i / v_i  -  size / 2   (k_i = 1 for an
  orbit with a fixed point, 2 otherwise; exact rationals, 1/v through an ite table up to VMAX);
  the automorphisms of the D-set are computed here by brute force over base images.

Ground obligations per output: it lives on exactly the input D-set, v is constant on 2-orbits,
every degree r*v >= 3, the curvature has the requested sign (spherical: additionally v <= 7),
hyperbolic outputs are minimally hyperbolic, no two outputs of one run are equivalent under an
automorphism, outputs are numbered consecutively, and the 'all' output is the disjoint union of
the three others, spherical outputs are on the list of good orbifolds.
  spherical     unsat( curvature(v) > 0, every v <= 7, the orbifold symbol of v — cone orders of the orbits
                       without fixed point, corner orders of those with one, '*' / 'x' flags of the D-set — is on
                       the generator's fixed list of good orbifolds (transcribed from the property's anchor),
                       and v equivalent to no output )
NOT decided: assignments with a branching number above VMAX; D-sets above the size bound.
Exit 0 / 1 (VIOLATION, replayed natively) / 2 (inconclusive).
"""
import argparse
import hashlib
import json
import os
import shutil
import subprocess
import sys
import time
from fractions import Fraction
from pathlib import Path

sys.path.insert(0, str(Path(__file__).resolve().parent))
from gen6 import run_solver, Z3, log, ENV, VERIF, REPO, OUT, SCRATCH_ROOT, CACHE  # noqa

TIERS = {"quick": 7, "thorough": 8}
VMAX = 43          # 1/2 + 1/3 + 1/7 + 1/42 = 1: beyond the classical extremal triples
CVC5 = ["cvc5", "--lang", "smt2", "--produce-models"]
CAP = {"quick": 120, "thorough": 900}


def build_native(scratch):
    repo = scratch / "repo"
    subprocess.check_call(["rsync", "-a", "--delete", "--exclude", "/target", "--exclude", "/.git",
                           str(REPO) + "/", str(repo) + "/"])
    (repo / "examples").mkdir(exist_ok=True)
    shutil.copy(VERIF / "native/verif_c07.rs", repo / "examples/verif_c07.rs")
    target = scratch / "target"
    src = CACHE / "native-target"
    if src.exists():
        subprocess.call(["cp", "-a", "--reflink=auto", str(src), str(target)])
    t0 = time.time()
    p = subprocess.run(["cargo", "build", "--offline", "--release", "--example", "verif_c07",
                        "--target-dir", str(target)], cwd=repo, env=ENV, stdout=subprocess.PIPE, stderr=subprocess.STDOUT)
    if p.returncode != 0:
        errs = [l for l in p.stdout.decode(errors="replace").splitlines() if l.startswith("error")]
        return None, "\n".join(errs[:10]), time.time() - t0
    return target / "release/examples/verif_c07", "", time.time() - t0


def run_dump(exe, n, timeout=900):
    try:
        p = subprocess.run([str(exe), "dump", str(n)], stdout=subprocess.PIPE, stderr=subprocess.PIPE, timeout=timeout)
    except subprocess.TimeoutExpired:
        return None, "generator did not terminate within %ds" % timeout
    if p.returncode != 0:
        msg = p.stderr.decode(errors="replace").strip().splitlines()
        return None, "generator crashed (rc=%d): %s" % (p.returncode, " | ".join(msg[:3]))
    sets, end = [], None
    for line in p.stdout.decode().splitlines():
        t = line.split()
        if t[0] == "S":
            size = int(t[1])
            flat = [int(x) for x in t[2:]]
            sets.append({"size": size, "ops": [flat[i * size:(i + 1) * size] for i in range(3)],
                         "out": {"s": [], "e": [], "h": [], "a": []}})
        elif t[0] == "Y":
            g, cnt, size = t[1], int(t[2]), int(t[3])
            flat = [int(x) for x in t[4:]]
            ops = [flat[i * size:(i + 1) * size] for i in range(3)]
            vs = [flat[3 * size + i * size:3 * size + (i + 1) * size] for i in range(2)]
            sets[-1]["out"][g].append({"count": cnt, "size": size, "ops": ops, "vs": vs})
        elif t[0] == "END":
            end = int(t[1])
    if end != len(sets):
        return None, "truncated dump"
    return sets, ""


# ---------------------------------------------------------------------------------------------
# combinatorics of one D-set (computed here, independently of the crate)
# ---------------------------------------------------------------------------------------------

def orbits(ops, size):
    """2-orbits for the index pairs (0,1) and (1,2): list of dicts {pair, chambers, r, k}"""
    res = []
    for i in (0, 1):
        seen = set()
        for d in range(1, size + 1):
            if d in seen:
                continue
            orb, stack = {d}, [d]
            while stack:
                c = stack.pop()
                for j in (i, i + 1):
                    e = ops[j][c - 1]
                    if e not in orb:
                        orb.add(e)
                        stack.append(e)
            seen |= orb
            r, e = 0, d
            while True:
                e = ops[i + 1][ops[i][e - 1] - 1]
                r += 1
                if e == d:
                    break
            chain = any(ops[i][c - 1] == c or ops[i + 1][c - 1] == c for c in orb)
            res.append({"pair": i, "chambers": sorted(orb), "r": r, "k": 1 if chain else 2})
    return res


def automorphisms(ops, size):
    res = []
    for img in range(1, size + 1):
        m = {1: img}
        stack, ok = [1], True
        while stack and ok:
            d = stack.pop()
            for i in range(3):
                di, ei = ops[i][d - 1], ops[i][m[d] - 1]
                if di not in m:
                    m[di] = ei
                    stack.append(di)
                elif m[di] != ei:
                    ok = False
                    break
        if ok and len(m) == size and len(set(m.values())) == size:
            res.append(m)
    return res


def orbit_maps(orbs, autos):
    """each automorphism as a permutation of orbit indices"""
    where = {}
    for idx, o in enumerate(orbs):
        for c in o["chambers"]:
            where[(o["pair"], c)] = idx
    maps = set()
    for a in autos:
        maps.add(tuple(where[(o["pair"], a[o["chambers"][0]])] for o in orbs))
    return sorted(maps)


def curvature(orbs, size, v):
    return sum(Fraction(o["k"], x) for o, x in zip(orbs, v)) - Fraction(size, 2)


GOOD = ["", "*", "x", "532", "432", "332", "422", "322", "222", "44", "33", "22",
        "*532", "*432", "*332", "3*2", "*422", "*322", "*222", "2*4", "2*3", "2*2",
        "*44", "*33", "*22", "4*", "3*", "2*", "4x", "3x", "2x"]
# the list of good spherical orbifolds the property refers to ("the generator's fixed list"), transcribed from
# the property's anchor; an entry reads <cone orders><*?><corner orders><x?>


def parse_good(key):
    cross = key.endswith("x")
    if cross:
        key = key[:-1]
    star = "*" in key
    front, _, back = key.partition("*")
    return star, cross, sorted(int(c) for c in front), sorted(int(c) for c in back)


def dset_flags(ops, size):
    """(star, cross, fixed 2-cones, fixed 2-corners) of a D-set, as the orbifold symbol defines them"""
    star = any(ops[i][d - 1] == d for i in range(3) for d in range(1, size + 1))
    # weakly oriented: the chamber graph without loops is bipartite
    sgn, ok = {1: 1}, True
    stack = [1]
    while stack:
        d = stack.pop()
        for i in range(3):
            e = ops[i][d - 1]
            if e == d:
                continue
            if e not in sgn:
                sgn[e] = -sgn[d]
                stack.append(e)
            elif sgn[e] != -sgn[d]:
                ok = False
    cones2 = corners2 = 0
    seen = set()
    for d in range(1, size + 1):
        if d in seen:
            continue
        d0, d2 = ops[0][d - 1], ops[2][d - 1]
        orb = {d, d0, d2, ops[2][d0 - 1]}
        seen |= orb
        if d0 == d and d2 == d:
            corners2 += 1
        elif d0 != d and d2 == d0:
            cones2 += 1
    return star, (not ok), cones2, corners2


def is_good(S, orbs, vec):
    star, cross, cones2, corners2 = dset_flags(S["ops"], S["size"])
    cones = sorted([2] * cones2 + [x for o, x in zip(orbs, vec) if o["k"] == 2 and x > 1])
    corners = sorted([2] * corners2 + [x for o, x in zip(orbs, vec) if o["k"] == 1 and x > 1])
    return any((star, cross, cones, corners) == parse_good(k) for k in GOOD)


def vmin(o):
    return 3 if o["r"] == 1 else (2 if o["r"] == 2 else 1)


def vector_of(out, orbs):
    """branching vector of an output symbol, None if v is not constant on an orbit"""
    vec = []
    for o in orbs:
        vals = {out["vs"][o["pair"]][c - 1] for c in o["chambers"]}
        if len(vals) != 1:
            return None
        vec.append(vals.pop())
    return vec


def ground(S, orbs, maps):
    """-> list of (geometry, description) failures; also fills S['vec']"""
    bad = []
    size = S["size"]
    S["vec"] = {}
    for g in "seha":
        vecs = []
        for k, o in enumerate(S["out"][g]):
            tag = "%s output %d" % (g, k + 1)
            if o["count"] != k + 1:
                bad.append((g, "%s is numbered %d" % (tag, o["count"])))
            if o["size"] != size or o["ops"] != S["ops"]:
                bad.append((g, "%s is not a symbol on the input D-set" % tag))
                continue
            vec = vector_of(o, orbs)
            if vec is None:
                bad.append((g, "%s: branching not constant on a 2-orbit" % tag))
                continue
            if any(x < 1 or ob["r"] * x < 3 for ob, x in zip(orbs, vec)):
                bad.append((g, "%s: a degree below 3 (v = %s)" % (tag, vec)))
                continue
            K = curvature(orbs, size, vec)
            want = {"s": K > 0, "e": K == 0, "h": K < 0, "a": True}[g]
            if not want:
                bad.append((g, "%s: curvature %s has the wrong sign (v = %s)" % (tag, K, vec)))
            if K > 0 and max(vec) > 7:
                bad.append((g, "%s: spherical with a branching number above 7 (v = %s)" % (tag, vec)))
            if K > 0 and not is_good(S, orbs, vec):
                bad.append((g, "%s: spherical orbifold not on the list of good orbifolds (v = %s)" % (tag, vec)))
            if K < 0:
                for i, ob in enumerate(orbs):
                    if vec[i] > vmin(ob):
                        w = list(vec)
                        w[i] -= 1
                        if curvature(orbs, size, w) < 0:
                            bad.append((g, "%s: not minimally hyperbolic: lowering orbit %d keeps it negative (v = %s)"
                                        % (tag, i, vec)))
                            break
            vecs.append(tuple(vec))
        # pairwise inequivalent under automorphisms
        for a in range(len(vecs)):
            for b in range(a + 1, len(vecs)):
                if any(tuple(vecs[a][m[i]] for i in range(len(orbs))) == vecs[b] for m in maps):
                    bad.append((g, "%s outputs %d and %d are isomorphic (v = %s, %s)" % (g, a + 1, b + 1, vecs[a], vecs[b])))
        S["vec"][g] = vecs
    if all(g in S["vec"] for g in "seha"):
        union = sorted(S["vec"]["s"] + S["vec"]["e"] + S["vec"]["h"])
        if sorted(S["vec"]["a"]) != union:
            bad.append(("a", "'all' output is not the disjoint union of the spherical, euclidean and hyperbolic outputs"))
    return bad


# ---------------------------------------------------------------------------------------------

def frac(q):
    return "(/ %d.0 %d.0)" % (q.numerator, q.denominator) if q >= 0 else "(- (/ %d.0 %d.0))" % (-q.numerator, q.denominator)


def query(S, orbs, maps, geometry):
    n = len(orbs)
    L = ["(set-logic QF_LIRA)"]
    for i, o in enumerate(orbs):
        L.append("(declare-const v%d Int)" % i)
        L.append("(assert (and (>= v%d %d) (<= v%d %d)))" % (i, vmin(o), i, VMAX))

    def inv(term_fmt, lo):
        # 1 / term through an ite table
        res = frac(Fraction(1, VMAX))
        for x in range(VMAX - 1, lo - 1, -1):
            res = "(ite (= %s %d) %s %s)" % (term_fmt, x, frac(Fraction(1, x)), res)
        return res
    for i, o in enumerate(orbs):
        L.append("(define-fun x%d () Real %s)" % (i, inv("v%d" % i, 1)))
    K = "(- (+ 0.0 %s) %s)" % (" ".join("(* %d.0 x%d)" % (o["k"], i) for i, o in enumerate(orbs)), frac(Fraction(S["size"], 2)))
    L.append("(define-fun K () Real %s)" % K)
    if geometry == "e":
        L.append("(assert (= K 0.0))")
    elif geometry == "s":
        L.append("(assert (> K 0.0))")
        for i in range(n):
            L.append("(assert (<= v%d 7))" % i)
        star, cross, cones2, corners2 = dset_flags(S["ops"], S["size"])
        alts = []
        for key in GOOD:
            gstar, gcross, gcones, gcorners = parse_good(key)
            if (gstar, gcross) != (star, cross):
                continue
            conj = []
            for t in range(2, 8):
                for (kk, fixed, want) in ((2, cones2 if t == 2 else 0, gcones.count(t)),
                                          (1, corners2 if t == 2 else 0, gcorners.count(t))):
                    terms = ["(ite (= v%d %d) 1 0)" % (i, t) for i, o in enumerate(orbs) if o["k"] == kk]
                    conj.append("(= (+ %d %s) %d)" % (fixed, " ".join(terms) if terms else "0", want))
            alts.append("(and %s)" % " ".join(conj))
        L.append("(assert (or false %s))" % " ".join(alts))
    else:
        L.append("(assert (< K 0.0))")
        for i, o in enumerate(orbs):
            # lowering v_i by one (when allowed) makes the curvature non-negative
            y = "(ite (= v%d 1) 1.0 %s)" % (i, inv("(- v%d 1)" % i, 1))
            L.append("(assert (=> (> v%d %d) (>= (+ (- K (* %d.0 x%d)) (* %d.0 %s)) 0.0)))" % (i, vmin(o), o["k"], i, o["k"], y))
    seen = set()
    for vec in S["vec"][geometry]:
        for m in maps:
            # w equivalent to vec through m:  w_i = vec[m[i]] ... all images of the output under the automorphisms
            img = tuple(vec[m[i]] for i in range(n))
            if img in seen:
                continue
            seen.add(img)
            L.append("(assert (or %s))" % " ".join("(not (= v%d %d))" % (i, img[i]) for i in range(n)))
    L.append("(check-sat)")
    L.append("(get-value (%s))" % " ".join("v%d" % i for i in range(n)))
    return "\n".join(L) + "\n", len(seen)


def parse_ints(out, n):
    import re
    vals = {}
    for m in re.finditer(r"\(v(\d+)\s+(\d+)\)", out):
        vals[int(m.group(1))] = int(m.group(2))
    return [vals.get(i, 0) for i in range(n)]


def replay_native(exe, v):
    """re-run the generator natively and re-evaluate the counterexample with exact rationals"""
    sets, err = run_dump(exe, v["max_size"])
    if sets is None:
        return "CONFIRMED ground: " + err
    S = next((s for s in sets if s["ops"] == v["ops"]), None)
    if S is None:
        return "REFUTED the D-set is not an input of this configuration"
    orbs = orbits(S["ops"], S["size"])
    maps = orbit_maps(orbs, automorphisms(S["ops"], S["size"]))
    bad = ground(S, orbs, maps)
    if v["kind"] == "ground":
        return ("CONFIRMED ground: %s" % bad[0][1]) if bad else "REFUTED all outputs are sound"
    vec, g = v["assignment"], v["geometry"]
    K = curvature(orbs, S["size"], vec)
    if any(x < vmin(o) for o, x in zip(orbs, vec)):
        return "REFUTED a degree below 3"
    if g == "e" and K != 0:
        return "REFUTED curvature %s is not zero" % K
    if g == "s" and not (K > 0 and max(vec) <= 7 and is_good(S, orbs, vec)):
        return "REFUTED not a good spherical assignment with branching <= 7 (curvature %s)" % K
    if g == "h":
        if K >= 0:
            return "REFUTED curvature %s is not negative" % K
        for i, o in enumerate(orbs):
            if vec[i] > vmin(o):
                w = list(vec)
                w[i] -= 1
                if curvature(orbs, S["size"], w) < 0:
                    return "REFUTED not minimally hyperbolic"
    for out in S["vec"].get(g, []):
        if any(tuple(out[m[i]] for i in range(len(orbs))) == tuple(vec) for m in maps):
            return "REFUTED equivalent to an output"
    return "CONFIRMED missing: curvature %s, no %s output is equivalent" % (K, g)


def run_check(tier, seed):
    t_start = time.time()
    scratch = SCRATCH_ROOT / ("verif-C07-%d" % os.getpid())
    if scratch.exists():
        shutil.rmtree(scratch)
    scratch.mkdir(parents=True)
    n, cap = TIERS[tier], CAP[tier]
    ev = {"dsets": 0, "outputs": 0, "queries": 0, "unsat": 0, "sat": 0, "solver_s": 0.0, "replays": 0, "ground": 0,
          "clauses": 0, "samples": [], "crosscheck": 0, "crosscheck_disagree": 0}
    violations, inconclusive = [], []
    try:
        exe, err, build_s = build_native(scratch)
        if exe is None:
            log("[gen7] INCONCLUSIVE: the tree does not build:\n" + err)
            write_evidence(tier, seed, ev, 0, ["build failed"], time.time() - t_start)
            return 2
        log("[gen7] built native driver from %s in %.0fs" % (REPO, build_s))
        sets, err = run_dump(exe, n)
        if sets is None:
            violations.append({"kind": "ground", "max_size": n, "ops": [], "what": err})
            sets = []
        for S in sets:
            ev["dsets"] += 1
            orbs = orbits(S["ops"], S["size"])
            maps = orbit_maps(orbs, automorphisms(S["ops"], S["size"]))
            nout = sum(len(S["out"][g]) for g in "seha")
            ev["outputs"] += nout
            ev["ground"] += nout + 1
            base = {"max_size": n, "ops": S["ops"], "size": S["size"]}
            bad = ground(S, orbs, maps)
            for (g, why) in bad[:2]:
                violations.append(dict(base, kind="ground", geometry=g, what=why))
            for g in "seh":
                if any(b[0] == g for b in bad):
                    continue
                text, ncl = query(S, orbs, maps, g)
                out, secs = run_solver(Z3, text, cap)
                ev["solver_s"] += secs
                ev["queries"] += 1
                ev["clauses"] += ncl
                first = (out or "timeout").split()[0] if (out or "timeout").split() else ""
                if first == "unsat":
                    ev["unsat"] += 1
                    if (ev["queries"] % 7) == (seed % 7):        # every 7th verdict re-run with cvc5
                        o2, s2 = run_solver(CVC5, text.replace("(get-value", ";(get-value"), cap)
                        ev["solver_s"] += s2
                        ev["crosscheck"] += 1
                        a2 = (o2 or "").split()[0] if (o2 or "").split() else "timeout"
                        if a2 == "sat":
                            ev["crosscheck_disagree"] += 1
                            inconclusive.append("z3 unsat but cvc5 sat (%s, D-set %s)" % (g, S["ops"]))
                elif first == "sat":
                    ev["sat"] += 1
                    vec = parse_ints(out, len(orbs))
                    violations.append(dict(base, kind="missing", geometry=g, assignment=vec,
                                           what="%s output misses the branching assignment %s (orbits %s)"
                                                % ({"e": "euclidean", "h": "hyperbolic", "s": "spherical"}[g], vec,
                                                   [(o["pair"], o["chambers"]) for o in orbs])))
                else:
                    inconclusive.append("solver said %r (%s, D-set %s)" % (first[:30], g, S["ops"]))
            if len(ev["samples"]) < 3 and S["size"] >= 2:
                ev["samples"].append({"dset": S["ops"], "orbits": [(o["pair"], o["chambers"], o["r"], o["k"]) for o in orbs],
                                      "automorphisms": len(maps), "euclidean_output": S["vec"].get("e", [])[:4],
                                      "obligation": "unsat(curvature(v) = 0 and v equivalent to no euclidean output)"})
        log("[gen7]   max size %d: %d D-sets, %d output symbols" % (n, ev["dsets"], ev["outputs"]))
        n_viol = 0
        for v in violations[:12]:
            res = replay_native(exe, v)
            ev["replays"] += 1
            v["native"] = res
            if not res.startswith("CONFIRMED"):
                inconclusive.append("NON-REPRODUCING counterexample (%s): %s" % (v["what"], res))
                continue
            rdir = OUT / "replays" / "C07"
            rdir.mkdir(parents=True, exist_ok=True)
            h = hashlib.sha1(json.dumps(v, sort_keys=True).encode()).hexdigest()[:10]
            rp = rdir / ("%s-%s.json" % (v["kind"], h))
            rp.write_text(json.dumps(v, indent=1))
            n_viol += 1
            log("VIOLATION property=C07 replay=%s" % rp)
            log("    %s (D-set %s): %s | native: %s" % (v["kind"], v["ops"], v["what"][:300], res[:200]))
        for m in inconclusive:
            log("INCONCLUSIVE %s" % m)
        rc = 1 if n_viol else (2 if inconclusive else 0)
        write_evidence(tier, seed, ev, n_viol, inconclusive, time.time() - t_start)
        log("[gen7] C07 tier=%s: %d D-sets, %d outputs, %d solver queries (%d unsat, %d sat), %d violation(s), %d inconclusive, "
            "wall %.0fs -> exit %d" % (tier, ev["dsets"], ev["outputs"], ev["queries"], ev["unsat"], ev["sat"], n_viol,
                                      len(inconclusive), time.time() - t_start, rc))
        return rc
    finally:
        shutil.rmtree(scratch, ignore_errors=True)


def write_evidence(tier, seed, ev, n_viol, inconclusive, wall):
    doc = {
        "property_id": "C07", "tier": tier, "seed": seed, "level": "model_checking",
        "wall_s": round(wall, 1), "violations": n_viol,
        "coverage": {
            "states": max(1, ev["outputs"]),
            "transitions": max(1, ev["clauses"]),
            "traces_validated_against_impl": ev["replays"],
            "obligations": ev["queries"] + ev["ground"],
            "discharged": ev["unsat"] + ev["ground"],
            "samples": ev["samples"] or [{"note": "no D-set completed"}],
            "exhaustive": False,
            "dsets": ev["dsets"], "output_symbols": ev["outputs"],
            "solver_queries": ev["queries"], "unsat": ev["unsat"], "sat": ev["sat"],
            "solver_seconds": round(ev["solver_s"], 2),
            "second_solver": {"rerun_with_cvc5": ev["crosscheck"], "disagreements": ev["crosscheck_disagree"]},
            "functions_encoded": ["generators::dsym_generators::DSyms (DSymBackTracking::{new, root, extract, children, "
                                  "is_minimally_hyperbolic, is_canonical, is_good, orbifold_symbol}, compute_vmins, "
                                  "orbit_maps, collect_orbits) — executed from the current tree on every 2D D-set of the "
                                  "configuration; curvature, minimal hyperbolicity and equivalence under automorphisms are "
                                  "encoded in QF_LIRA"],
            "explanation": "states = output symbols turned into constants; transitions = blocking clauses (output x automorphism)",
            "inconclusive": inconclusive,
        },
        "assumptions": [
            "inputs: every D-set of DSets::new(2, %d) — complete by the C06 check — crossed with the four geometries; "
            "larger D-sets are outside the claim" % TIERS[tier],
            "universe of the completeness queries: integer branching numbers with every degree >= 3 and at most %d" % VMAX,
            "the list of good spherical orbifolds is the one the property refers to ('the generator's fixed list'), transcribed "
            "into engine/gen7.py; the orbifold symbol of an assignment is recomputed there",
            "orbits, automorphisms and exact curvature are computed by engine/gen7.py, independently of the crate",
            "solver: z3 4.8.12 (QF_LIRA); every 7th unsat verdict re-run with cvc5",
        ],
    }
    (OUT / "evidence").mkdir(parents=True, exist_ok=True)
    (OUT / "evidence" / "C07.json").write_text(json.dumps(doc, indent=1) + "\n")


def run_replay(path):
    v = json.loads(Path(path).read_text())
    scratch = SCRATCH_ROOT / ("verif-C07-replay-%d" % os.getpid())
    scratch.mkdir(parents=True, exist_ok=True)
    try:
        exe, err, _ = build_native(scratch)
        if exe is None:
            print("build failed:\n" + err)
            return 2
        res = replay_native(exe, v)
        print(res)
        return 1 if res.startswith("CONFIRMED") else 0
    finally:
        shutil.rmtree(scratch, ignore_errors=True)


def main():
    ap = argparse.ArgumentParser()
    sub = ap.add_subparsers(dest="cmd", required=True)
    c = sub.add_parser("check")
    c.add_argument("--tier", default=os.environ.get("VERIF_TIER", "quick"), choices=["quick", "thorough"])
    r = sub.add_parser("replay")
    r.add_argument("path")
    a = ap.parse_args()
    if a.cmd == "check":
        sys.exit(run_check(a.tier, int(os.environ.get("VERIF_SEED", "0") or 0)))
    sys.exit(run_replay(a.path))


if __name__ == "__main__":
    main()
