#!/usr/bin/env python3
"""gen11 — check of property C11 (coset enumeration returns the true coset table) for input-free
configurations: a parameter-only presentation family (as in gen12.py) and a subgroup given by a
pattern (trivial subgroup, whole group, <g1>, <g2>, <g1 g2>, <g^m for every g>, <g1 g2 g1, g2>,
<g1^2, g2^2, g1 g2>, <[g1, g2]>, <g1^-1 g2, g2^2>).

    gen11.py check [--tier quick|thorough]
    gen11.py replay <replay.json>

The real `coset_table` and `coset_representative`, built from the CURRENT tree, are run once per
configuration (no data input, so the run is native; DESIGN.md section 3.7) and their output becomes
constants.  Decided per configuration:

  validity (ground formulas over the constants): every entry defined; every generator acts as a
      permutation whose inverse is the action of the inverse generator; transitive; every relator traced
      from every row returns to it; every subgroup generator traced from row 0 returns to row 0; every
      coset representative, traced from row 0, ends in its row.
  exactly [G:H] rows (SMT, z3 QF_BV, re-run with cvc5): a table that passes validity is a transitive G-set
      with a point fixed by H, hence has at most [G:H] rows; it has exactly [G:H] rows iff NO transitive
      action on more points satisfies the relators with H fixing a point:
          for every r' with rows < r' <= B:  unsat( X = nr_gens symbolic permutations of r' points, transitive,
          every relator fixes every point, every subgroup generator fixes point 0 ).
      B is the stated bound (larger G-sets are outside the claim).

A `sat` model is a concrete larger action; it is replayed natively (native/verif_c11.rs) before it is
reported.  Exit 0 / 1 (VIOLATION) / 2 (inconclusive).
"""
import argparse
import hashlib
import json
import os
import shutil
import subprocess
import sys
import time
from pathlib import Path

sys.path.insert(0, str(Path(__file__).resolve().parent))
from gen6 import run_solver, Z3, CVC5, parse_values, bv, BV, log, ENV, VERIF, REPO, OUT, SCRATCH_ROOT, CACHE  # noqa
import gen12

# (family, parameter, subgroup pattern); B = largest action searched for
TIERS = {
    "quick": [("D", 3, "triv"), ("D", 3, "first"), ("D", 3, "all"), ("D", 3, "mix"), ("D", 4, "triv"), ("D", 4, "ab"),
              ("D", 4, "first"), ("C", 6, "triv"), ("C", 6, "pow2"), ("C", 6, "pow3"), ("Z", 2, "pow2"), ("Z", 2, "all"),
              ("F", 2, "all"), ("T", 233, "first"), ("T", 233, "ab"), ("T", 233, "mix"), ("T", 234, "ab"), ("T", 235, "ab"),
              ("T", 237, "all"), ("S", 2, "all"), ("D", 4, "comm"), ("D", 3, "second"), ("D", 4, "mix"), ("Z", 2, "sqab"),
              ("F", 2, "sqab"), ("T", 233, "second"), ("T", 234, "mix"), ("T", 233, "inv"), ("L", 4, "first"), ("R", 2, "pow2"), ("D", 3, "b3"), ("C", 6, "a4"), ("T", 234, "b3"), ("A", 3, "pow2"), ("T", 234, "b2")],
    "thorough": [("D", 3, "triv"), ("D", 3, "first"), ("D", 3, "all"), ("D", 3, "mix"), ("D", 4, "triv"), ("D", 4, "ab"),
                 ("D", 4, "first"), ("D", 4, "mix"), ("D", 5, "first"), ("D", 5, "ab"), ("D", 6, "first"), ("D", 6, "mix"),
                 ("C", 6, "triv"), ("C", 6, "pow2"), ("C", 6, "pow3"), ("C", 8, "triv"), ("C", 8, "pow2"),
                 ("Z", 2, "pow2"), ("Z", 2, "all"), ("Z", 3, "pow2"), ("Z", 3, "all"), ("F", 2, "all"), ("F", 3, "all"),
                 ("T", 233, "first"), ("T", 233, "ab"), ("T", 233, "mix"), ("T", 233, "triv"), ("T", 234, "ab"),
                 ("T", 234, "first"), ("T", 235, "ab"), ("T", 235, "first"), ("T", 237, "all"), ("S", 2, "all"), ("D", 4, "comm"), ("D", 3, "second"),
                 ("Z", 2, "sqab"), ("F", 2, "sqab"), ("T", 233, "second"), ("T", 234, "mix"), ("T", 233, "inv"),
                 ("T", 234, "inv"), ("T", 235, "mix"), ("D", 6, "comm"), ("D", 5, "mix"), ("L", 4, "first"), ("L", 6, "second"),
                 ("R", 2, "pow2"), ("R", 3, "pow2"), ("D", 3, "b3"), ("C", 6, "a4"), ("T", 234, "b3"), ("D", 5, "b3"),
                 ("C", 8, "a4"), ("T", 233, "a4"), ("A", 3, "pow2"), ("A", 3, "first"), ("A", 2, "triv"), ("T", 234, "b2"), ("T", 235, "b2"),
                 ("Z", 3, "pow2"), ("A", 3, "b2")],
}
BOUND = {"quick": 8, "thorough": 8}
SOLVER_TIMEOUT = {"quick": 120, "thorough": 1200}


def build_native(scratch):
    repo = scratch / "repo"
    subprocess.check_call(["rsync", "-a", "--delete", "--exclude", "/target", "--exclude", "/.git",
                           str(REPO) + "/", str(repo) + "/"])
    (repo / "examples").mkdir(exist_ok=True)
    shutil.copy(VERIF / "native/verif_c11.rs", repo / "examples/verif_c11.rs")
    target = scratch / "target"
    src = CACHE / "native-target"
    if src.exists():
        subprocess.call(["cp", "-a", "--reflink=auto", str(src), str(target)])
    t0 = time.time()
    p = subprocess.run(["cargo", "build", "--offline", "--release", "--example", "verif_c11",
                        "--target-dir", str(target)], cwd=repo, env=ENV,
                       stdout=subprocess.PIPE, stderr=subprocess.STDOUT)
    if p.returncode != 0:
        errs = [l for l in p.stdout.decode(errors="replace").splitlines() if l.startswith("error")]
        return None, "\n".join(errs[:10]), time.time() - t0
    return target / "release/examples/verif_c11", "", time.time() - t0


def words(body):
    return [[int(x) for x in w.split()] for w in body.split(";") if w.strip()]


def run_dump(exe, fam, par, pat, timeout=300):
    try:
        p = subprocess.run([str(exe), "dump", fam, str(par), pat], stdout=subprocess.PIPE,
                           stderr=subprocess.PIPE, timeout=timeout)
    except subprocess.TimeoutExpired:
        return None, "coset enumeration did not terminate within %ds" % timeout
    if p.returncode != 0:
        msg = p.stderr.decode(errors="replace").strip().splitlines()
        return None, "coset enumeration crashed (rc=%d): %s" % (p.returncode, " | ".join(msg[:3]))
    d = {"reps": {}}
    ended = False
    for line in p.stdout.decode().splitlines():
        t = line.split()
        if not t:
            continue
        if t[0] == "G":
            d["n"] = int(t[1])
        elif t[0] == "R":
            d["rels"] = words(line[2:])
        elif t[0] == "H":
            d["sub"] = words(line[2:])
        elif t[0] == "T":
            rows, n = int(t[1]), d["n"]
            flat = [int(x) for x in t[2:]]
            if len(flat) != rows * 2 * n:
                return None, "malformed dump"
            d["table"] = [flat[i * 2 * n:(i + 1) * 2 * n] for i in range(rows)]
        elif t[0] == "W":
            d["reps"][int(t[1])] = [int(x) for x in t[2:]]
        elif t[0] == "END":
            ended = True
    if not ended or "table" not in d:
        return None, "truncated dump"
    return d, ""


def trace(t, n, start, w):
    cur = start
    for l in w:
        cur = t[cur][l - 1] if l > 0 else t[cur][n + (-l) - 1]
        if cur < 0:
            return -1
    return cur


def ground_failures(d):
    n, t = d["n"], d["table"]
    bad = [why for (_, why) in gen12.ground_failures(n, d["rels"], [t], 10 ** 9)]
    if bad:
        return bad           # the table is not an action: nothing else is meaningful
    for w in d["sub"]:
        if trace(t, n, 0, w) != 0:
            bad.append("subgroup generator %s traced from row 0 ends in row %d" % (w, trace(t, n, 0, w)))
    for row in range(len(t)):
        if row not in d["reps"]:
            bad.append("no coset representative for row %d" % row)
        elif trace(t, n, 0, d["reps"][row]) != row:
            bad.append("coset representative %s of row %d, traced from row 0, ends in row %d"
                       % (d["reps"][row], row, trace(t, n, 0, d["reps"][row])))
    extra = [r for r in d["reps"] if r >= len(t)]
    if extra:
        bad.append("coset representatives for non-existent rows %s" % extra)
    return bad


def larger_query(n, rels, sub, r):
    # the action part of gen12's completeness query without outputs, plus: H fixes point 0
    text, _, X = gen12.completeness_query(n, rels, r, [])
    lines = text.split("\n")
    cut = lines.index("(check-sat)")
    body, tail = lines[:cut], lines[cut:]

    def fwd(g, term):
        res = X[g][r - 1]
        for p in range(r - 2, -1, -1):
            res = "(ite (= %s %s) %s %s)" % (term, bv(p), X[g][p], res)
        return res

    def inv(g, term):
        res = bv(r - 1)
        for p in range(r - 2, -1, -1):
            res = "(ite (= %s %s) %s %s)" % (X[g][p], term, bv(p), res)
        return res
    k = 0
    for w in sub:
        cur = bv(0)
        for l in w:
            k += 1
            v = "h_%d" % k
            body.append("(declare-const %s (_ BitVec %d))" % (v, BV))
            body.append("(assert (= %s %s))" % (v, fwd(l - 1, cur) if l > 0 else inv(-l - 1, cur)))
            cur = v
        body.append("(assert (= %s %s))" % (cur, bv(0)))
    return "\n".join(body + tail) + "\n", X


def replay_native(exe, v):
    if v["kind"] != "larger":
        return "CONFIRMED ground"
    args = ["larger", v["family"], v["param"], v["pattern"], v["points"]] + [x for row in v["action"] for x in row]
    p = subprocess.run([str(exe)] + [str(a) for a in args], stdout=subprocess.PIPE, stderr=subprocess.PIPE, timeout=600)
    return p.stdout.decode(errors="replace").strip() or ("crash rc=%d" % p.returncode)


def load_known():
    p = VERIF / "known_findings.txt"
    return [l for l in p.read_text().splitlines() if l.startswith("finding:") and "property=C11" in l] if p.exists() else []


def run_check(tier, seed):
    t_start = time.time()
    scratch = SCRATCH_ROOT / ("verif-C11-%d" % os.getpid())
    if scratch.exists():
        shutil.rmtree(scratch)
    scratch.mkdir(parents=True)
    cap, B = SOLVER_TIMEOUT[tier], BOUND[tier]
    ev = {"configs": [], "queries": 0, "unsat": 0, "sat": 0, "solver_s": 0.0, "replays": 0, "ground": 0,
          "samples": [], "crosscheck": [], "rows": 0}
    violations, inconclusive = [], []
    try:
        exe, err, build_s = build_native(scratch)
        if exe is None:
            log("[gen11] INCONCLUSIVE: the tree does not build:\n" + err)
            write_evidence(tier, seed, ev, 0, ["build failed"], time.time() - t_start)
            return 2
        log("[gen11] built native driver from %s in %.0fs" % (REPO, build_s))
        for (fam, par, pat) in TIERS[tier]:
            base = {"family": fam, "param": par, "pattern": pat}
            d, err = run_dump(exe, fam, par, pat)
            cfg = dict(base)
            if d is None:
                violations.append(dict(base, kind="ground", what=err))
                cfg["error"] = err
                ev["configs"].append(cfg)
                continue
            n, t = d["n"], d["table"]
            cfg.update({"relators": d["rels"], "subgroup": d["sub"], "rows": len(t)})
            ev["rows"] += len(t)
            ev["ground"] += 1
            bad = ground_failures(d)
            for why in bad[:3]:
                violations.append(dict(base, kind="ground", what=why))
            if not any("coset representative" not in b for b in bad):
                # the table is a valid action with H fixing row 0: is it as large as [G:H]?
                for r in range(len(t) + 1, B + 1):
                    text, X = larger_query(n, d["rels"], d["sub"], r)
                    out, secs = run_solver(Z3, text, cap)
                    ev["solver_s"] += secs
                    ev["queries"] += 1
                    first = (out or "timeout").split()[0] if (out or "timeout").split() else ""
                    if first == "unsat":
                        ev["unsat"] += 1
                    elif first == "sat":
                        ev["sat"] += 1
                        vals = parse_values(out)
                        action = [[vals.get(X[g][p], 0) for p in range(r)] for g in range(n)]
                        violations.append(dict(base, kind="larger", points=r, action=action,
                                               what="the table has %d rows but a transitive action on %d points satisfies "
                                                    "the relators with the subgroup fixing a point: %s" % (len(t), r, action)))
                        break
                    else:
                        inconclusive.append("index %s%d/%s r'=%d: solver said %r" % (fam, par, pat, r, first[:30]))
                        break
                # second solver on the first larger size
                if len(t) + 1 <= B:
                    text, X = larger_query(n, d["rels"], d["sub"], len(t) + 1)
                    o2, s2 = run_solver(CVC5, text.replace("(get-value", ";(get-value"), cap)
                    ev["solver_s"] += s2
                    a2 = (o2 or "").split()[0] if (o2 or "").split() else "timeout"
                    ev["crosscheck"].append({"config": "%s%d/%s r'=%d" % (fam, par, pat, len(t) + 1), "cvc5": a2})
            ev["configs"].append(cfg)
            if len(ev["samples"]) < 4:
                ev["samples"].append({"config": [fam, par, pat], "relators": d["rels"], "subgroup": d["sub"],
                                      "table": t if len(t) <= 8 else t[:8],
                                      "obligation": "unsat(exists a transitive action on r' > rows points satisfying the "
                                                    "relators with the subgroup fixing a point)"})
            log("[gen11]   %s%d / %s: %d rows%s" % (fam, par, pat, len(t), ("  GROUND: " + "; ".join(bad[:2])) if bad else ""))
        known = load_known()
        n_viol = 0
        for v in violations[:16]:
            res = replay_native(exe, v)
            ev["replays"] += 1
            v["native"] = res
            if not res.startswith("CONFIRMED"):
                inconclusive.append("NON-REPRODUCING counterexample (%s): %s" % (v["what"], res))
                continue
            key = "config=%s%d/%s" % (v["family"], v["param"], v["pattern"])
            role = "representative" if "coset representative" in v["what"] else v["kind"]
            if any(key in kf and ("role=%s" % role) in kf for kf in known):
                log("KNOWN-FINDING: property=C11 %s role=%s %s" % (key, role, v["what"][:200]))
                continue
            rdir = OUT / "replays" / "C11"
            rdir.mkdir(parents=True, exist_ok=True)
            h = hashlib.sha1(json.dumps(v, sort_keys=True).encode()).hexdigest()[:10]
            rp = rdir / ("%s-%s.json" % (v["kind"], h))
            rp.write_text(json.dumps(v, indent=1))
            n_viol += 1
            log("VIOLATION property=C11 replay=%s" % rp)
            log("    %s (%s%d / %s): %s | native: %s" % (v["kind"], v["family"], v["param"], v["pattern"], v["what"][:300], res))
        for m in inconclusive:
            log("INCONCLUSIVE %s" % m)
        rc = 1 if n_viol else (2 if inconclusive else 0)
        write_evidence(tier, seed, ev, n_viol, inconclusive, time.time() - t_start)
        log("[gen11] C11 tier=%s: %d configuration(s), %d solver queries (%d unsat, %d sat), %d violation(s), %d inconclusive, "
            "wall %.0fs -> exit %d" % (tier, len(TIERS[tier]), ev["queries"], ev["unsat"], ev["sat"], n_viol,
                                      len(inconclusive), time.time() - t_start, rc))
        return rc
    finally:
        shutil.rmtree(scratch, ignore_errors=True)


def write_evidence(tier, seed, ev, n_viol, inconclusive, wall):
    doc = {
        "property_id": "C11", "tier": tier, "seed": seed, "level": "model_checking",
        "wall_s": round(wall, 1), "violations": n_viol,
        "coverage": {
            "states": max(1, ev["rows"]),
            "transitions": max(1, ev["queries"]),
            "traces_validated_against_impl": ev["replays"],
            "obligations": ev["queries"] + ev["ground"],
            "discharged": ev["unsat"] + ev["ground"],
            "samples": ev["samples"] or [{"note": "no configuration completed"}],
            "exhaustive": False,
            "configurations": ev["configs"],
            "solver_queries": ev["queries"], "unsat": ev["unsat"], "sat": ev["sat"],
            "solver_seconds": round(ev["solver_s"], 2), "second_solver": ev["crosscheck"],
            "functions_encoded": ["fpgroups::cosets::{coset_table, coset_representative} (CosetTable::{get, set, join, "
                                  "merge, compact, canon}, scan, scan_inverse, scan_both_ways, scan_and_connect, "
                                  "expanded_relator_set) — executed from the current tree on input-free configurations; "
                                  "transitive actions, relators and 'subgroup fixes a point' are encoded in QF_BV"],
            "explanation": "states = table rows turned into constants; transitions = solver queries 'no larger action'",
            "inconclusive": inconclusive,
        },
        "assumptions": [
            "configurations are input-free: parameter-only presentation families and subgroup patterns; arbitrary "
            "presentations / subgroup words are NOT decided",
            "bound: configurations %s; 'exactly [G:H] rows' is decided against transitive actions on at most %d points"
            % (TIERS[tier], BOUND[tier]),
            "solver: z3 4.8.12 (QF_BV); the first 'no larger action' query of every configuration re-run with cvc5",
        ],
    }
    (OUT / "evidence").mkdir(parents=True, exist_ok=True)
    (OUT / "evidence" / "C11.json").write_text(json.dumps(doc, indent=1) + "\n")


def run_replay(path):
    v = json.loads(Path(path).read_text())
    scratch = SCRATCH_ROOT / ("verif-C11-replay-%d" % os.getpid())
    scratch.mkdir(parents=True, exist_ok=True)
    try:
        exe, err, _ = build_native(scratch)
        if exe is None:
            print("build failed:\n" + err)
            return 2
        if v["kind"] == "larger":
            res = replay_native(exe, v)
        else:
            d, err = run_dump(exe, v["family"], v["param"], v["pattern"])
            bad = [err] if d is None else ground_failures(d)
            res = ("CONFIRMED ground: %s" % bad[:3]) if bad else "REFUTED the table is valid"
        print(res)
        return 1 if res.startswith("CONFIRMED") else 0
    finally:
        shutil.rmtree(scratch, ignore_errors=True)


def main():
    ap = argparse.ArgumentParser()
    sub = ap.add_subparsers(dest="cmd", required=True)
    c = sub.add_parser("check")
    c.add_argument("--tier", default=os.environ.get("VERIF_TIER", "quick"), choices=["quick", "thorough"])
    r = sub.add_parser("replay")
    r.add_argument("path")
    a = ap.parse_args()
    if a.cmd == "check":
        sys.exit(run_check(a.tier, int(os.environ.get("VERIF_SEED", "0") or 0)))
    sys.exit(run_replay(a.path))


if __name__ == "__main__":
    main()
