#!/usr/bin/env python3
"""gen12 — check of property C12 (low-index enumeration: sound, irredundant, complete) for
PARAMETER-ONLY presentation families.

    gen12.py check [--tier quick|thorough]
    gen12.py replay <replay.json>

`coset_tables(nr_gens, relators, k)` is checked for presentations that are determined by integer
parameters alone — free groups F_n, free abelian groups Z^n, dihedral groups D_m, cyclic groups
C_m, surface groups S_g, triangle groups T(p,q,r) — so that, as for the D-set generator (gen6.py,
DESIGN.md section 3.7), a configuration (family, parameter, k) has no data input: the real
enumeration, built from the CURRENT tree, is run once per configuration and its tables become
constants.  The universally quantified part of C12 is decided by an SMT solver (z3, completeness
verdicts re-run with cvc5):

  completeness  for every r <= k:  unsat( X is a tuple of nr_gens permutations of r points, transitive,
                every relator fixes every point,  AND  for every output table O with r rows and every
                bijection pi of the points:  pi is not an equivalence of actions X -> O )
                (conjugacy classes of subgroups of index r  <->  equivalence classes of transitive
                actions on r points); X symbolic, the inner "for every pi" expanded.
  irredundancy  for every pair of output tables with the same number of rows:
                unsat( pi bijection and pi o O_i(g) = O_j(g) o pi for every generator g ), pi symbolic.
  soundness     every output table is complete, every generator acts as a permutation whose inverse
                is the action of the inverse generator, the action is transitive, every relator
                traced from every row returns to it, rows <= k: ground formulas over the constants.

Arbitrary presentations (symbolic relator words) are NOT decided: the solver never sees the
enumeration's code, only its output for input-free configurations.
Exit 0 / 1 (VIOLATION, replayed natively by native/verif_c12.rs) / 2 (inconclusive).
"""
import argparse
import hashlib
import itertools
import json
import os
import shutil
import subprocess
import sys
import time
from pathlib import Path

sys.path.insert(0, str(Path(__file__).resolve().parent))
from gen6 import run_solver, Z3, CVC5, parse_values, bv, BV, log, ENV, VERIF, REPO, OUT, SCRATCH_ROOT, CACHE  # noqa

# (family, parameter, k)
TIERS = {
    "quick": [("F", 1, 7), ("F", 2, 4), ("F", 3, 3), ("Z", 2, 6), ("Z", 3, 4), ("D", 3, 6), ("D", 4, 8),
              ("C", 6, 6), ("S", 2, 3), ("T", 237, 7), ("T", 233, 6), ("L", 4, 4), ("R", 2, 4), ("A", 3, 4)],
    "thorough": [("F", 1, 8), ("F", 2, 5), ("F", 3, 4), ("F", 4, 3), ("Z", 2, 8), ("Z", 3, 5), ("Z", 4, 3),
                 ("D", 3, 6), ("D", 4, 8), ("D", 5, 7), ("D", 6, 8), ("C", 6, 6), ("C", 8, 8), ("S", 2, 4),
                 ("T", 237, 8), ("T", 233, 8), ("T", 234, 8), ("T", 235, 7), ("T", 244, 6), ("T", 236, 6), ("L", 4, 4), ("L", 6, 6), ("R", 2, 5), ("R", 3, 4)],
}
SOLVER_TIMEOUT = {"quick": 300, "thorough": 3000}


def build_native(scratch):
    repo = scratch / "repo"
    subprocess.check_call(["rsync", "-a", "--delete", "--exclude", "/target", "--exclude", "/.git",
                           str(REPO) + "/", str(repo) + "/"])
    (repo / "examples").mkdir(exist_ok=True)
    shutil.copy(VERIF / "native/verif_c12.rs", repo / "examples/verif_c12.rs")
    target = scratch / "target"
    src = CACHE / "native-target"
    if src.exists():
        subprocess.call(["cp", "-a", "--reflink=auto", str(src), str(target)])
    t0 = time.time()
    # release profile: the enumeration itself is the expensive part natively
    p = subprocess.run(["cargo", "build", "--offline", "--release", "--example", "verif_c12",
                        "--target-dir", str(target)], cwd=repo, env=ENV,
                       stdout=subprocess.PIPE, stderr=subprocess.STDOUT)
    if p.returncode != 0:
        errs = [l for l in p.stdout.decode(errors="replace").splitlines() if l.startswith("error")]
        return None, "\n".join(errs[:10]), time.time() - t0
    return target / "release/examples/verif_c12", "", time.time() - t0


def run_dump(exe, fam, par, k, timeout=900):
    try:
        p = subprocess.run([str(exe), "dump", fam, str(par), str(k)], stdout=subprocess.PIPE,
                           stderr=subprocess.PIPE, timeout=timeout)
    except subprocess.TimeoutExpired:
        return None, None, None, "enumeration did not terminate within %ds" % timeout
    if p.returncode != 0:
        msg = p.stderr.decode(errors="replace").strip().splitlines()
        return None, None, None, "enumeration crashed (rc=%d): %s" % (p.returncode, " | ".join(msg[:3]))
    n, rels, tabs, end = None, [], [], None
    for line in p.stdout.decode().splitlines():
        t = line.split()
        if not t:
            continue
        if t[0] == "G":
            n = int(t[1])
        elif t[0] == "R":
            body = line[2:].strip()
            rels = [[int(x) for x in w.split()] for w in body.split(";") if w.strip()]
        elif t[0] == "T":
            rows = int(t[1])
            flat = [int(x) for x in t[2:]]
            if n is None or len(flat) != rows * 2 * n:
                return None, None, None, "malformed dump line"
            tabs.append([flat[i * 2 * n:(i + 1) * 2 * n] for i in range(rows)])
        elif t[0] == "END":
            end = int(t[1])
    if n is None or end != len(tabs):
        return None, None, None, "truncated dump"
    return n, rels, tabs, ""


def ground_failures(n, rels, tabs, k):
    bad = []
    for idx, t in enumerate(tabs):
        r = len(t)
        why = None
        if r < 1 or r > k:
            why = "%d rows, bound %d" % (r, k)
        else:
            for c in range(r):
                for g in range(2 * n):
                    if not (0 <= t[c][g] < r):
                        why = "entry (%d,%d) undefined / out of range" % (c, g)
            if why is None:
                for g in range(n):
                    for c in range(r):
                        if t[t[c][g]][n + g] != c or t[t[c][n + g]][g] != c:
                            why = "generator %d: inverse column is not the inverse action at row %d" % (g + 1, c)
            if why is None:
                seen, st = {0}, [0]
                while st:
                    c = st.pop()
                    for g in range(2 * n):
                        if t[c][g] not in seen:
                            seen.add(t[c][g])
                            st.append(t[c][g])
                if len(seen) != r:
                    why = "not transitive"
            if why is None:
                for w in rels:
                    for c in range(r):
                        cur = c
                        for l in w:
                            cur = t[cur][l - 1] if l > 0 else t[cur][n + (-l) - 1]
                        if cur != c:
                            why = "relator %s moves row %d" % (w, c)
        if why:
            bad.append((idx + 1, why))
    return bad


def completeness_query(n, rels, r, tabs_r):
    L = ["(set-logic QF_BV)"]
    X = [["x_%d_%d" % (g, p) for p in range(r)] for g in range(n)]
    for g in range(n):
        for p in range(r):
            L.append("(declare-const %s (_ BitVec %d))" % (X[g][p], BV))
            L.append("(assert (bvult %s %s))" % (X[g][p], bv(r)))
        if r > 1:
            L.append("(assert (distinct %s))" % " ".join(X[g]))

    def fwd(g, term):
        res = X[g][r - 1]
        for p in range(r - 2, -1, -1):
            res = "(ite (= %s %s) %s %s)" % (term, bv(p), X[g][p], res)
        return res

    def inv(g, term):
        res = bv(r - 1)
        for p in range(r - 2, -1, -1):
            res = "(ite (= %s %s) %s %s)" % (X[g][p], term, bv(p), res)
        return res
    # relators fix every point (one fresh variable per step keeps the terms small)
    fresh = [0]
    for w in rels:
        for p in range(r):
            cur = bv(p)
            for l in w:
                fresh[0] += 1
                v = "t_%d" % fresh[0]
                L.append("(declare-const %s (_ BitVec %d))" % (v, BV))
                L.append("(assert (= %s %s))" % (v, fwd(l - 1, cur) if l > 0 else inv(-l - 1, cur)))
                cur = v
            L.append("(assert (= %s %s))" % (cur, bv(p)))
    # transitive: reachability from point 0 by forward generator images (finite permutations)
    prev = ["true"] + ["false"] * (r - 1)
    for rnd in range(1, r):
        cur = []
        for q in range(r):
            name = "r_%d_%d" % (rnd, q)
            L.append("(declare-const %s Bool)" % name)
            terms = [prev[q]]
            for p in range(r):
                for g in range(n):
                    terms.append("(and %s (= %s %s))" % (prev[p], X[g][p], bv(q)))
            L.append("(assert (= %s (or %s)))" % (name, " ".join(terms)))
            cur.append(name)
        prev = cur
    for q in range(r):
        L.append("(assert %s)" % prev[q])
    # inequivalent to every output: X_g(p) = pi^-1(O_g(pi(p))) for all g, p  <=>  pi is an equivalence
    ncl, seen = 0, set()
    for t in tabs_r:
        for pi in itertools.permutations(range(r)):
            ipi = [0] * r
            for p in range(r):
                ipi[pi[p]] = p
            img = tuple(tuple(ipi[t[pi[p]][g]] for p in range(r)) for g in range(n))
            if img in seen:
                continue
            seen.add(img)
            diffs = ["(not (= %s %s))" % (X[g][p], bv(img[g][p])) for g in range(n) for p in range(r)]
            L.append("(assert (or %s))" % " ".join(diffs))
            ncl += 1
    L.append("(check-sat)")
    L.append("(get-value (%s))" % " ".join(x for row in X for x in row))
    return "\n".join(L) + "\n", ncl, X


def equiv_query(n, r, ta, tb):
    L = ["(push 1)"]
    P = ["p_%d" % q for q in range(r)]
    for q in range(r):
        L.append("(declare-const %s (_ BitVec %d))" % (P[q], BV))
        L.append("(assert (bvult %s %s))" % (P[q], bv(r)))
    if r > 1:
        L.append("(assert (distinct %s))" % " ".join(P))

    def b_at(g, term):
        res = bv(tb[r - 1][g])
        for q in range(r - 2, -1, -1):
            res = "(ite (= %s %s) %s %s)" % (term, bv(q), bv(tb[q][g]), res)
        return res
    for g in range(n):
        for q in range(r):
            L.append("(assert (= %s %s))" % (P[ta[q][g]], b_at(g, P[q])))
    L.append("(check-sat)")
    L.append("(pop 1)")
    return "\n".join(L) + "\n"


def replay_native(exe, v):
    if v["kind"] == "missing":
        args = ["missing", v["family"], v["param"], v["k"], v["rows"]] + [x for row in v["action"] for x in row]
    elif v["kind"] == "duplicate":
        args = ["duplicate", v["family"], v["param"], v["k"], v["i"], v["j"]]
    else:
        return "CONFIRMED ground"
    p = subprocess.run([str(exe)] + [str(a) for a in args], stdout=subprocess.PIPE, stderr=subprocess.PIPE,
                       timeout=900)
    return p.stdout.decode(errors="replace").strip() or ("crash rc=%d" % p.returncode)


def run_check(tier, seed):
    t_start = time.time()
    scratch = SCRATCH_ROOT / ("verif-C12-%d" % os.getpid())
    if scratch.exists():
        shutil.rmtree(scratch)
    scratch.mkdir(parents=True)
    cap = SOLVER_TIMEOUT[tier]
    ev = {"configs": [], "queries": 0, "unsat": 0, "sat": 0, "solver_s": 0.0, "replays": 0,
          "ground": 0, "samples": [], "crosscheck": [], "clauses": 0, "tables": 0}
    violations, inconclusive = [], []
    try:
        exe, err, build_s = build_native(scratch)
        if exe is None:
            log("[gen12] INCONCLUSIVE: the tree does not build:\n" + err)
            write_evidence(tier, seed, ev, 0, ["build failed"], time.time() - t_start)
            return 2
        log("[gen12] built native driver from %s in %.0fs" % (REPO, build_s))
        for (fam, par, k) in TIERS[tier]:
            n, rels, tabs, err = run_dump(exe, fam, par, k)
            cfg = {"family": fam, "param": par, "k": k}
            base = {"family": fam, "param": par, "k": k}
            if tabs is None:
                violations.append(dict(base, kind="ground", what=err))
                cfg["error"] = err
                ev["configs"].append(cfg)
                continue
            cfg.update({"nr_gens": n, "relators": rels, "tables": len(tabs)})
            ev["tables"] += len(tabs)
            ev["ground"] += len(tabs)
            badset = set()
            for (idx, why) in ground_failures(n, rels, tabs, k):
                badset.add(idx)
                violations.append(dict(base, kind="ground", what="table %d: %s" % (idx, why)))
            good = [(i + 1, t) for i, t in enumerate(tabs) if (i + 1) not in badset]
            by_rows = {}
            for (i, t) in good:
                by_rows.setdefault(len(t), []).append((i, t))
            per = {}
            for r, lst in sorted(by_rows.items()):
                text, pairs = "(set-logic QF_BV)\n", []
                for a in range(len(lst)):
                    for b in range(a + 1, len(lst)):
                        text += equiv_query(n, r, lst[a][1], lst[b][1])
                        pairs.append((lst[a][0], lst[b][0]))
                if pairs:
                    out, secs = run_solver(Z3, text, cap)
                    ev["solver_s"] += secs
                    answers = [l for l in (out or "").split() if l in ("sat", "unsat", "unknown")]
                    if out is None or "(error" in out or len(answers) != len(pairs) or "unknown" in answers:
                        inconclusive.append("irredundancy %s%d k=%d rows=%d: solver timeout/error" % (fam, par, k, r))
                    else:
                        ev["queries"] += len(pairs)
                        ev["unsat"] += answers.count("unsat")
                        for (pr, ans) in zip(pairs, answers):
                            if ans == "sat":
                                ev["sat"] += 1
                                violations.append(dict(base, kind="duplicate", i=pr[0], j=pr[1],
                                                       what="tables %d and %d are equivalent actions" % pr))
                per[str(r)] = {"tables": len(lst), "pairs": len(pairs)}
            for r in range(1, k + 1):
                lst = [t for (_, t) in by_rows.get(r, [])]
                text, ncl, X = completeness_query(n, rels, r, lst)
                out, secs = run_solver(Z3, text, cap)
                ev["solver_s"] += secs
                ev["queries"] += 1
                ev["clauses"] += ncl
                rec = per.setdefault(str(r), {"tables": len(lst), "pairs": 0})
                rec["blocking_clauses"] = ncl
                rec["completeness_s"] = round(secs, 2)
                first = (out or "timeout").split()[0] if (out or "timeout").split() else ""
                if first == "unsat":
                    ev["unsat"] += 1
                    o2, s2 = run_solver(CVC5, text.replace("(get-value", ";(get-value"), cap)
                    ev["solver_s"] += s2
                    a2 = (o2 or "").split()[0] if (o2 or "").split() else "timeout"
                    ev["crosscheck"].append({"config": "%s%d k=%d r=%d" % (fam, par, k, r), "z3": "unsat", "cvc5": a2})
                    if a2 == "sat":
                        inconclusive.append("completeness %s%d k=%d r=%d: z3 unsat but cvc5 sat" % (fam, par, k, r))
                elif first == "sat":
                    ev["sat"] += 1
                    vals = parse_values(out)
                    action = [[vals.get(X[g][p], 0) for p in range(r)] for g in range(n)]
                    violations.append(dict(base, kind="missing", rows=r, action=action,
                                           what="no table is equivalent to the transitive action %s on %d points"
                                                % (action, r)))
                else:
                    inconclusive.append("completeness %s%d k=%d r=%d: solver said %r" % (fam, par, k, r, first[:40]))
            cfg["per_rows"] = per
            ev["configs"].append(cfg)
            if len(ev["samples"]) < 4 and tabs:
                ev["samples"].append({"config": [fam, par, k], "relators": rels, "last_table": tabs[-1],
                                      "obligation": "unsat(exists a transitive action on r points satisfying the "
                                                    "relators that is equivalent to no output table)"})
            log("[gen12]   %s%d k=%d: %d generators, %d tables %s" % (fam, par, k, n, len(tabs),
                                                                      {r: v["tables"] for r, v in per.items()}))
        n_viol = 0
        if len(violations) > 12:
            log("[gen12] %d candidate violations; the first 12 are replayed and reported" % len(violations))
            violations = violations[:12]
        known = [l for l in (VERIF / "known_findings.txt").read_text().splitlines()
                 if l.startswith("finding:") and "property=C12" in l] if (VERIF / "known_findings.txt").exists() else []
        for v in violations:
            res = replay_native(exe, v)
            ev["replays"] += 1
            v["native"] = res
            if not res.startswith("CONFIRMED"):
                inconclusive.append("NON-REPRODUCING counterexample (%s): %s" % (v["what"], res))
                continue
            key = "%s %s%d k=%d" % (v["kind"], v["family"], v["param"], v["k"])
            if any(key in kf for kf in known):
                log("KNOWN-FINDING: property=C12 %s %s" % (key, v["what"]))
                continue
            rdir = OUT / "replays" / "C12"
            rdir.mkdir(parents=True, exist_ok=True)
            h = hashlib.sha1(json.dumps(v, sort_keys=True).encode()).hexdigest()[:10]
            rp = rdir / ("%s-%s.json" % (v["kind"], h))
            rp.write_text(json.dumps(v, indent=1))
            n_viol += 1
            log("VIOLATION property=C12 replay=%s" % rp)
            log("    %s (%s%d, k=%d): %s | native: %s" % (v["kind"], v["family"], v["param"], v["k"], v["what"], res))
        for m in inconclusive:
            log("INCONCLUSIVE %s" % m)
        rc = 1 if n_viol else (2 if inconclusive else 0)
        write_evidence(tier, seed, ev, n_viol, inconclusive, time.time() - t_start)
        log("[gen12] C12 tier=%s: %d configuration(s), %d tables, %d solver queries (%d unsat, %d sat), %d violation(s), "
            "%d inconclusive, wall %.0fs -> exit %d" % (tier, len(TIERS[tier]), ev["tables"], ev["queries"], ev["unsat"],
                                                       ev["sat"], n_viol, len(inconclusive), time.time() - t_start, rc))
        return rc
    finally:
        shutil.rmtree(scratch, ignore_errors=True)


def write_evidence(tier, seed, ev, n_viol, inconclusive, wall):
    doc = {
        "property_id": "C12", "tier": tier, "seed": seed, "level": "model_checking",
        "wall_s": round(wall, 1), "violations": n_viol,
        "coverage": {
            "states": max(1, ev["tables"]),
            "transitions": max(1, ev["clauses"]),
            "traces_validated_against_impl": ev["replays"],
            "obligations": ev["queries"] + ev["ground"],
            "discharged": ev["unsat"] + ev["ground"],
            "samples": ev["samples"] or [{"note": "no configuration completed"}],
            "exhaustive": False,
            "configurations": ev["configs"],
            "solver_queries": ev["queries"], "unsat": ev["unsat"], "sat": ev["sat"],
            "solver_seconds": round(ev["solver_s"], 2),
            "second_solver": ev["crosscheck"],
            "functions_encoded": ["fpgroups::cosets::coset_tables (CosetTables iterator -> BackTrackIterator::next, "
                                  "derived_table, potential_children, is_canonical, compare_renumbered_from, "
                                  "scan_both_ways, CosetTable::{get, set, join, len}) — executed from the current tree "
                                  "on input-free configurations; transitive actions, relators and equivalence of "
                                  "actions are encoded in QF_BV"],
            "explanation": "states = output tables turned into constants; transitions = blocking clauses "
                           "(table x bijection, deduplicated) in the completeness queries",
            "inconclusive": inconclusive,
        },
        "assumptions": [
            "presentations are parameter-only families (free, free abelian, dihedral, cyclic, surface, triangle groups): "
            "a configuration (family, parameter, k) has no data input and is executed once from the current tree "
            "(release profile); arbitrary presentations are NOT decided",
            "bound: configurations %s" % TIERS[tier],
            "universe of the completeness query: nr_gens permutations of r <= k points, transitive, every relator "
            "fixes every point; conjugacy classes of subgroups of index r = equivalence classes of such actions",
            "solver: z3 4.8.12 (QF_BV); every unsat completeness verdict re-run with cvc5",
        ],
    }
    (OUT / "evidence").mkdir(parents=True, exist_ok=True)
    (OUT / "evidence" / "C12.json").write_text(json.dumps(doc, indent=1) + "\n")


def run_replay(path):
    v = json.loads(Path(path).read_text())
    scratch = SCRATCH_ROOT / ("verif-C12-replay-%d" % os.getpid())
    scratch.mkdir(parents=True, exist_ok=True)
    try:
        exe, err, _ = build_native(scratch)
        if exe is None:
            print("build failed:\n" + err)
            return 2
        if v["kind"] in ("missing", "duplicate"):
            res = replay_native(exe, v)
        else:
            n, rels, tabs, err = run_dump(exe, v["family"], v["param"], v["k"])
            bad = [err] if tabs is None else ground_failures(n, rels, tabs, v["k"])
            res = ("CONFIRMED ground: %s" % bad[:3]) if bad else "REFUTED all tables are sound"
        print(res)
        return 1 if res.startswith("CONFIRMED") else 0
    finally:
        shutil.rmtree(scratch, ignore_errors=True)


def main():
    ap = argparse.ArgumentParser()
    sub = ap.add_subparsers(dest="cmd", required=True)
    c = sub.add_parser("check")
    c.add_argument("--tier", default=os.environ.get("VERIF_TIER", "quick"), choices=["quick", "thorough"])
    r = sub.add_parser("replay")
    r.add_argument("path")
    a = ap.parse_args()
    if a.cmd == "check":
        sys.exit(run_check(a.tier, int(os.environ.get("VERIF_SEED", "0") or 0)))
    sys.exit(run_replay(a.path))


if __name__ == "__main__":
    main()
