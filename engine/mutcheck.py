#!/usr/bin/env python3
"""Runs checks against seeded changes WITHOUT touching /repo: copies /repo's working tree to a
scratch directory, applies /verif/seeded/<id>/patch.diff there, and runs
`kc.py check <prop> --only ...` with VERIF_REPO pointing at the copy and VERIF_OUT at a scratch
output directory (so evidence/ and replays/ of /verif are not overwritten).  Several of these
may run at the same time (the memory budget of kc.py is shared across processes).

Usage: mutcheck.py <id> <tier> [harness,harness,...]
Writes /verif/seeded/<id>/detection.json."""
import json, subprocess, sys, os, time, shutil
from pathlib import Path
V = Path(__file__).resolve().parent.parent
mid, tier = sys.argv[1], sys.argv[2]
only = sys.argv[3] if len(sys.argv) > 3 else ""
d = V / "seeded" / mid
prop = os.environ.get("MUTCHECK_PROP") or json.loads((d / "meta.json").read_text())["property"]
detfile = "detection.json" if not os.environ.get("MUTCHECK_PROP") else "detection-%s.json" % prop
scratch = Path(os.environ.get("VERIF_SCRATCH", "/var/tmp")) / ("verif-mut-%s-%d" % (mid, os.getpid()))
if scratch.exists():
    shutil.rmtree(scratch)
(scratch / "out").mkdir(parents=True)
t0 = time.time()
try:
    subprocess.check_call(["rsync", "-a", "--exclude", "/target", "--exclude", "/.git",
                           "/repo/", str(scratch / "repo") + "/"])
    subprocess.check_call(["git", "apply", str(d / "patch.diff")], cwd=scratch / "repo")
    if prop in ("C04", "C05") and os.environ.get("MUTCHECK_NOKC"):
        cmd = ["python3", str(V / ("engine/gen%s.py" % prop[2])), "check", "--tier", tier, "--no-kc"]
        detfile = "detection-gen%s.json" % prop[2]
    elif prop in ("C06", "C07", "C09", "C11", "C12"):
        cmd = ["python3", str(V / ("engine/gen%s.py" % prop[1:].lstrip("0"))), "check", "--tier", tier]
    elif False:
        cmd = ["python3", str(V / ("engine/gen6.py" if prop == "C06" else "engine/gen12.py")), "check", "--tier", tier]
    else:
        cmd = ["python3", str(V / "engine/kc.py"), "check", prop, "--tier", tier]
        if only:
            cmd += ["--only", only]
    env = dict(os.environ)
    env["VERIF_REPO"] = str(scratch / "repo")
    env["VERIF_OUT"] = str(scratch / "out")
    r = subprocess.run(cmd, cwd=V, stdout=subprocess.PIPE, stderr=subprocess.STDOUT, env=env)
    out = r.stdout.decode(errors="replace")
finally:
    shutil.rmtree(scratch, ignore_errors=True)
viol = [l for l in out.splitlines() if l.startswith("VIOLATION") or l.startswith("    harness=")]
inc = [l for l in out.splitlines() if l.startswith("INCONCLUSIVE")]
res = {"id": mid, "property": prop, "tier": tier, "only": only, "exit_code": r.returncode,
       "detected": r.returncode == 1, "violation_lines": viol[:12], "inconclusive": inc[:6],
       "wall_s": round(time.time() - t0, 1),
       "verif_commit": subprocess.run(["git", "-C", str(V), "rev-parse", "--short", "HEAD"],
                                      stdout=subprocess.PIPE).stdout.decode().strip()}
(d / detfile).write_text(json.dumps(res, indent=1) + "\n")
print("%s exit=%d detected=%s %.0fs" % (mid, r.returncode, res["detected"], res["wall_s"]))
for l in viol[:6]:
    print("   ", l[:300])
for l in inc[:3]:
    print("   ", l[:300])
if os.environ.get("MUTCHECK_VERBOSE"):
    print(out[-3000:])
