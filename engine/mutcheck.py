#!/usr/bin/env python3
"""Runs checks against seeded changes: applies /verif/seeded/<id>/patch.diff to /repo's working tree,
runs `kc.py check <prop> --only ...`, restores /repo.  Usage: mutcheck.py <id> <tier> [harness,harness,...]
Writes /verif/seeded/<id>/detection.json.  Never commits anything to /repo."""
import json, subprocess, sys, os, time
from pathlib import Path
V = Path(__file__).resolve().parent.parent
mid, tier = sys.argv[1], sys.argv[2]
only = sys.argv[3] if len(sys.argv) > 3 else ""
d = V / "seeded" / mid
prop = json.loads((d / "meta.json").read_text())["property"]
assert subprocess.run(["git", "-C", "/repo", "status", "--porcelain", "--untracked-files=no"],
                      stdout=subprocess.PIPE).stdout.strip() == b"", "/repo working tree not clean"
subprocess.check_call(["git", "-C", "/repo", "apply", str(d / "patch.diff")])
t0 = time.time()
try:
    cmd = ["python3", str(V / "engine/kc.py"), "check", prop, "--tier", tier]
    if only:
        cmd += ["--only", only]
    env = dict(os.environ)
    r = subprocess.run(cmd, cwd=V, stdout=subprocess.PIPE, stderr=subprocess.STDOUT, env=env)
    out = r.stdout.decode(errors="replace")
finally:
    subprocess.check_call(["git", "-C", "/repo", "checkout", "--", "."])
viol = [l for l in out.splitlines() if l.startswith("VIOLATION") or l.startswith("    harness=")]
inc = [l for l in out.splitlines() if l.startswith("INCONCLUSIVE")]
res = {"id": mid, "property": prop, "tier": tier, "only": only, "exit_code": r.returncode,
       "detected": r.returncode == 1, "violation_lines": viol[:12], "inconclusive": inc[:6],
       "wall_s": round(time.time() - t0, 1),
       "verif_commit": subprocess.run(["git", "-C", str(V), "rev-parse", "--short", "HEAD"],
                                      stdout=subprocess.PIPE).stdout.decode().strip()}
(d / "detection.json").write_text(json.dumps(res, indent=1) + "\n")
# replay files written for a seeded change are not evidence about /repo: remove them
for l in viol:
    if "replay=" in l:
        try:
            os.unlink(l.split("replay=")[1].strip())
        except OSError:
            pass
print("%s exit=%d detected=%s %.0fs" % (mid, r.returncode, res["detected"], res["wall_s"]))
for l in viol[:6]:
    print("   ", l[:300])
for l in inc[:3]:
    print("   ", l[:300])
