#!/usr/bin/env python3
"""Regenerates the table of DESIGN.md section 6 from seeded/*/meta.json and detection.json."""
import json, re
from pathlib import Path
V = Path(__file__).resolve().parent.parent
rows = []
for d in sorted((V / "seeded").iterdir()):
    m = json.loads((d / "meta.json").read_text())
    det = json.loads((d / "detection.json").read_text()) if (d / "detection.json").exists() else None
    # runs of a second engine / under another property (detection-gen4.json, detection-C12.json, ...)
    extra = []
    for alt in sorted(d.glob("detection-*.json")):
        a = json.loads(alt.read_text())
        if a.get("detected"):
            extra.append("by `%s` (%s tier, %ds)" % (alt.stem.replace("detection-", "").replace("gen", "engine/gen") ,
                                                           a["tier"], a["wall_s"]))
    if det is None:
        res = "not run"
    elif det["detected"]:
        labs = []
        for l in det["violation_lines"]:
            mm = re.search(r"harness=(\S+) label=(.*?) witness=", l)
            if mm:
                labs.append("`%s`: %s" % (mm.group(1), mm.group(2)[:70]))
        res = "**caught** (%s tier, %ds) — %s" % (det["tier"], det["wall_s"], "; ".join(labs[:2]))
    elif det["exit_code"] == 2:
        res = "inconclusive (%s tier): %s" % (det["tier"], "; ".join(det["inconclusive"])[:160])
    else:
        res = "**missed** (%s tier, harnesses %s)" % (det["tier"], det["only"])
    if extra:
        res = ("**caught** " if not (det and det["detected"]) else res + "; also ") + "; ".join(extra)
    note = m.get("detection_note", "")
    rows.append("| %s | %s | %s | %s%s |" % (m["id"], m["change"].replace("|", "\\|"),
                                            m["needs_to_manifest"].replace("|", "\\|"), res,
                                            (" " + note) if note else ""))
table = "| id | change | needs | result |\n|----|--------|-------|--------|\n" + "\n".join(rows) + "\n"
p = V / "DESIGN.md"
s = p.read_text()
a, b = "<!-- SEEDTABLE:BEGIN -->\n", "<!-- SEEDTABLE:END -->\n"
i, j = s.index(a) + len(a), s.index(b)
p.write_text(s[:i] + table + s[j:])
print("%d seeded changes" % len(rows))
