// Native driver for the minimal-image part of the C04 check (engine/gen4.py).  Copied into the scratch copy of
// the crate as examples/verif_c04.rs and built against the CURRENT tree; public API only.
//
//   verif_c04 dump <max_size> <max_sheets>
//       for every 2D D-set of DSets::new(2, max_size) and every symbol of DSyms::new(&set, All):
//         "B <size> <op table> <m01> <m12>"      the symbol
//         "F <0|1>"                               is_minimal()
//         "M <size> <op table> <m01> <m12>"      minimal_image(symbol)
//         "Y <size> ..." / "N <size> ..."        each cover of covers(symbol, max_sheets) and its minimal image
//       "END <number of symbols>"
use rust_dsymbols::covers::covers;
use rust_dsymbols::derived::minimal_image;
use rust_dsymbols::dsets::*;
use rust_dsymbols::generators::dset_generators::DSets;
use rust_dsymbols::generators::dsym_generators::{DSyms, Geometries};

fn line<T: DSet>(tag: &str, ds: &T) -> String {
    let mut out = vec![tag.to_string(), ds.size().to_string()];
    for i in 0..=ds.dim() { for d in 1..=ds.size() { out.push(ds.op(i, d).unwrap_or(0).to_string()); } }
    for i in 0..ds.dim() { for d in 1..=ds.size() { out.push(ds.m(i, i + 1, d).unwrap_or(0).to_string()); } }
    out.join(" ")
}

fn main() {
    let args: Vec<String> = std::env::args().collect();
    let n: usize = args[2].parse().expect("number");
    let k: usize = args[3].parse().expect("number");
    let mut count = 0;
    for set in DSets::new(2, n) {
        for sym in DSyms::new(&set, Geometries::All) {
            count += 1;
            println!("{}", line("B", &sym));
            println!("F {}", if sym.is_minimal() { 1 } else { 0 });
            println!("{}", line("M", &minimal_image(&sym)));
            for cov in covers(&sym, k) {
                println!("{}", line("Y", &cov));
                println!("{}", line("N", &minimal_image(&cov)));
            }
        }
    }
    println!("END {}", count);
}
