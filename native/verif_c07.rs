// Native driver for the C07 check (engine/gen7.py).  Copied into the scratch copy of the crate as
// examples/verif_c07.rs and built against the CURRENT tree; public API only.
//
//   verif_c07 dump <max_size>
//       for every 2-dimensional D-set of DSets::new(2, max_size):
//         "S <size> <op(0,1..size)> <op(1,..)> <op(2,..)>"
//         then for every geometry g in s, e, h, a and every symbol of DSyms::new(&set, g):
//         "Y <g> <symbol_count> <size> <op table as above> <v(0,1,d) d=1..size> <v(1,2,d) d=1..size>"
//       "END <number of D-sets>"
use rust_dsymbols::dsets::*;
use rust_dsymbols::dsyms::*;
use rust_dsymbols::generators::dset_generators::DSets;
use rust_dsymbols::generators::dsym_generators::{DSyms, Geometries};

fn ops<T: DSet>(ds: &T) -> Vec<String> {
    let mut out = vec![];
    for i in 0..=ds.dim() {
        for d in 1..=ds.size() {
            out.push(ds.op(i, d).unwrap_or(0).to_string());
        }
    }
    out
}

fn main() {
    let args: Vec<String> = std::env::args().collect();
    let n: usize = args[2].parse().expect("number");
    let mut count = 0;
    for set in DSets::new(2, n) {
        count += 1;
        println!("S {} {}", set.size(), ops(&set).join(" "));
        for (tag, g) in [("s", Geometries::Spherical), ("e", Geometries::Euclidean),
                         ("h", Geometries::Hyperbolic), ("a", Geometries::All)] {
            for sym in DSyms::new(&set, g) {
                let mut vs = vec![];
                for i in 0..2 {
                    for d in 1..=sym.size() {
                        vs.push(sym.v(i, i + 1, d).unwrap_or(0).to_string());
                    }
                }
                println!("Y {} {} {} {} {}", tag, sym.symbol_count(), sym.size(), ops(&sym).join(" "), vs.join(" "));
            }
        }
    }
    println!("END {}", count);
}
