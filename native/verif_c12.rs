// Native driver for the C12 check (engine/gen12.py).  Copied into the scratch copy of the crate as
// examples/verif_c12.rs and built against the CURRENT tree; public API only.
//
// Presentations are parameter-only families (the parameters are part of the bound):
//   F n  free group on n generators           Z n  free abelian group of rank n
//   D m  dihedral <a,b | a^2, b^2, (ab)^m>    C m  cyclic <a | a^m>
//   S g  surface group of genus g <a1,b1,..,ag,bg | [a1,b1]...[ag,bg]>
//   T pqr  triangle group <a,b | a^p, b^q, (ab)^r>, digits p q r
//   L m  <a,b | a, b^m> (cyclic of order m with a redundant trivial generator)
//
//   verif_c12 dump <family> <param> <k>
//       "G <nr_gens>", "R <w1> ; <w2> ; ..." (relators), then one line per table
//       "T <rows> e(0,1) .. e(0,n) e(0,-1) .. e(0,-n) e(1,1) ..." (-1 = undefined), then "END <count>"
//   verif_c12 missing <family> <param> <k> <r> <x(1,0)> .. <x(1,r-1)> <x(2,0)> ...
//       replays a solver counterexample to completeness: the given transitive action on r points
//       satisfies the relators and is equivalent to NO table of the enumeration
//   verif_c12 duplicate <family> <param> <k> <i> <j>     tables i and j (1-based) are equivalent actions
use rust_dsymbols::fpgroups::cosets::coset_tables;
use rust_dsymbols::fpgroups::free_words::FreeWord;

fn presentation(family: &str, p: usize) -> (usize, Vec<Vec<isize>>) {
    match family {
        "F" => (p, vec![]),
        "Z" => {
            let mut r = vec![];
            for i in 1..=p as isize { for j in (i + 1)..=p as isize { r.push(vec![i, j, -i, -j]); } }
            (p, r)
        }
        "D" => {
            let mut ab = vec![];
            for _ in 0..p { ab.push(1); ab.push(2); }
            (2, vec![vec![1, 1], vec![2, 2], ab])
        }
        "C" => (1, vec![vec![1; p]]),
        // finite abelian Z_m x Z_m = <a,b | a^m, b^m, [a,b]>
        "A" => (2, vec![vec![1; p], vec![2; p], vec![1, 2, -1, -2]]),
        // a generator declared trivial by a relator of length 1: <a,b | a, b^m>
        "L" => (2, vec![vec![1], vec![2; p]]),
        // redundant generators: <a,b,c | c a^m, c^-1 b> (infinite cyclic, b = c = a^-m)
        "R" => { let mut w = vec![3]; w.extend(vec![1; p]); (3, vec![w, vec![-3, 2]]) }
        "S" => {
            let mut w = vec![];
            for i in 0..p as isize { let (a, b) = (2 * i + 1, 2 * i + 2); w.extend([a, b, -a, -b]); }
            (2 * p, vec![w])
        }
        "T" => {
            let (a, b, c) = (p / 100, (p / 10) % 10, p % 10);
            let mut ab = vec![];
            for _ in 0..c { ab.push(1); ab.push(2); }
            (2, vec![vec![1; a], vec![2; b], ab])
        }
        _ => panic!("unknown family"),
    }
}

type Table = Vec<Vec<isize>>; // rows x (2 n): images under g = 1..n, then under -1..-n

fn tables(family: &str, p: usize, k: usize) -> (usize, Vec<Vec<isize>>, Vec<Table>) {
    let (n, rels) = presentation(family, p);
    let fw: Vec<FreeWord> = rels.iter().map(|w| FreeWord::from(w.clone())).collect();
    let mut out = vec![];
    for t in coset_tables(n, &fw, k) {
        let mut rows = vec![];
        for c in 0..t.len() {
            let mut row = vec![];
            for g in 1..=n as isize { row.push(t.get(c, g).map(|x| x as isize).unwrap_or(-1)); }
            for g in 1..=n as isize { row.push(t.get(c, -g).map(|x| x as isize).unwrap_or(-1)); }
            rows.push(row);
        }
        out.push(rows);
    }
    (n, rels, out)
}

/// equivalent as actions: some bijection of the points commutes with every generator
fn equivalent(n: usize, a: &Table, b: &Table) -> bool {
    let r = a.len();
    if b.len() != r { return false; }
    // transitive actions: the image of point 0 determines the map
    'img: for img0 in 0..r {
        let mut map = vec![usize::MAX; r];
        let mut used = vec![false; r];
        map[0] = img0; used[img0] = true;
        let mut stack = vec![0usize];
        while let Some(p) = stack.pop() {
            for g in 0..n {
                let (pg, qg) = (a[p][g], b[map[p]][g]);
                if pg < 0 || qg < 0 { continue 'img; }
                let (pg, qg) = (pg as usize, qg as usize);
                if map[pg] == usize::MAX {
                    if used[qg] { continue 'img; }
                    map[pg] = qg; used[qg] = true; stack.push(pg);
                } else if map[pg] != qg { continue 'img; }
            }
        }
        if map.iter().all(|&x| x != usize::MAX) { return true; }
    }
    false
}

fn main() {
    let args: Vec<String> = std::env::args().collect();
    let num = |k: usize| -> usize { args[k].parse().expect("number") };
    let family = args[2].as_str();
    let (p, k) = (num(3), num(4));
    match args[1].as_str() {
        "dump" => {
            let (n, rels, ts) = tables(family, p, k);
            println!("G {}", n);
            let rs: Vec<String> = rels.iter()
                .map(|w| w.iter().map(|x| x.to_string()).collect::<Vec<_>>().join(" ")).collect();
            println!("R {}", rs.join(" ; "));
            for t in &ts {
                let flat: Vec<String> = t.iter().flatten().map(|x| x.to_string()).collect();
                println!("T {} {}", t.len(), flat.join(" "));
            }
            println!("END {}", ts.len());
        }
        "missing" => {
            let r = num(5);
            let (n, rels, ts) = tables(family, p, k);
            let x: Vec<Vec<usize>> = (0..n).map(|g| (0..r).map(|q| num(6 + g * r + q)).collect()).collect();
            // permutations
            for g in 0..n {
                let mut seen = vec![false; r];
                for q in 0..r {
                    if x[g][q] >= r || seen[x[g][q]] { println!("REFUTED generator {} is not a permutation", g + 1); return; }
                    seen[x[g][q]] = true;
                }
            }
            let apply = |q: usize, l: isize| -> usize {
                let g = (l.abs() - 1) as usize;
                if l > 0 { x[g][q] } else { (0..r).find(|&s| x[g][s] == q).unwrap() }
            };
            for w in &rels { for q in 0..r {
                if w.iter().fold(q, |c, &l| apply(c, l)) != q { println!("REFUTED relator {:?} moves point {}", w, q); return; }
            }}
            let mut seen = vec![false; r]; seen[0] = true; let mut st = vec![0];
            while let Some(q) = st.pop() { for g in 0..n { let s = x[g][q]; if !seen[s] { seen[s] = true; st.push(s); } } }
            if !seen.iter().all(|&b| b) { println!("REFUTED not transitive"); return; }
            if r > k { println!("REFUTED more points than the index bound"); return; }
            let xt: Table = (0..r).map(|q| {
                let mut row: Vec<isize> = (0..n).map(|g| x[g][q] as isize).collect();
                for g in 0..n { row.push((0..r).find(|&s| x[g][s] == q).unwrap() as isize); }
                row }).collect();
            for (i, t) in ts.iter().enumerate() {
                if equivalent(n, &xt, t) { println!("REFUTED equivalent to table {}", i + 1); return; }
            }
            println!("CONFIRMED missing");
        }
        "duplicate" => {
            let (i, j) = (num(5), num(6));
            let (n, _, ts) = tables(family, p, k);
            if i >= 1 && j >= 1 && i != j && i <= ts.len() && j <= ts.len() && equivalent(n, &ts[i - 1], &ts[j - 1]) {
                println!("CONFIRMED duplicate");
            } else {
                println!("REFUTED tables {} and {} are not equivalent", i, j);
            }
        }
        _ => panic!("usage"),
    }
}
