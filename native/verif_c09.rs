// Native driver for the C09 check (engine/gen9.py).  Copied into the scratch copy of the crate as
// examples/verif_c09.rs and built against the CURRENT tree; public API only.
//
//   verif_c09 dump <max_size>
//       for every 2D D-set of DSets::new(2, max_size) and every symbol of DSyms::new(&set, All):
//         "B <size> <op table> <m(0,1,d)> <m(1,2,d)>"       the symbol
//         "P <nr_generators>"
//         "R <w1> ; <w2> ; ..."                              relators of fundamental_group(symbol)
//         "G <g> <d> <i>"                                    gen_to_edge
//         "E <d> <i> <letters...>"                           edge_to_word (one line per entry)
//         "K <degree> <letters...>"                          cones
//       "END <number of symbols>"
use rust_dsymbols::dsets::*;
use rust_dsymbols::fundamental_group::fundamental_group;
use rust_dsymbols::generators::dset_generators::DSets;
use rust_dsymbols::generators::dsym_generators::{DSyms, Geometries};

fn main() {
    let args: Vec<String> = std::env::args().collect();
    let n: usize = args[2].parse().expect("number");
    let mut count = 0;
    for set in DSets::new(2, n) {
        for sym in DSyms::new(&set, Geometries::All) {
            count += 1;
            let mut out = vec!["B".to_string(), sym.size().to_string()];
            for i in 0..=2 { for d in 1..=sym.size() { out.push(sym.op(i, d).unwrap_or(0).to_string()); } }
            for i in 0..2 { for d in 1..=sym.size() { out.push(sym.m(i, i + 1, d).unwrap_or(0).to_string()); } }
            println!("{}", out.join(" "));
            let g = fundamental_group(&sym);
            println!("P {}", g.nr_generators());
            let ws: Vec<String> = g.relators.iter()
                .map(|w| w.iter().map(|x| x.to_string()).collect::<Vec<_>>().join(" ")).collect();
            println!("R {}", ws.join(" ; "));
            for (gen, (d, i)) in g.gen_to_edge.iter() { println!("G {} {} {}", gen, d, i); }
            for ((d, i), w) in g.edge_to_word.iter() {
                let l: Vec<String> = w.iter().map(|x| x.to_string()).collect();
                println!("E {} {} {}", d, i, l.join(" "));
            }
            for (w, deg) in g.cones.iter() {
                let l: Vec<String> = w.iter().map(|x| x.to_string()).collect();
                println!("K {} {}", deg, l.join(" "));
            }
        }
    }
    println!("END {}", count);
}
