// Native driver for the C09 check (engine/gen9.py).  Copied into the scratch copy of the crate as
// examples/verif_c09.rs and built against the CURRENT tree; public API only.
//
//   verif_c09 dump <max_size> <renumber_upto>
//       for every 2D D-set of DSets::new(2, max_size) and every symbol of DSyms::new(&set, All) — and, for symbols
//       with at most <renumber_upto> chambers, every renumbering of the chambers (the construction follows the
//       numbering: spanning tree, order of gluing) —:
//         "B <size> <op table> <m(0,1,d)> <m(1,2,d)>"       the symbol
//         "P <nr_generators>"
//         "R <w1> ; <w2> ; ..."                              relators of fundamental_group(symbol)
//         "G <g> <d> <i>"                                    gen_to_edge
//         "E <d> <i> <letters...>"                           edge_to_word (one line per entry)
//         "K <degree> <letters...>"                          cones
//       "END <number of symbols>"
use rust_dsymbols::derived::{build_set, build_sym_using_ms};
use rust_dsymbols::dsets::*;
use rust_dsymbols::dsyms::*;
use rust_dsymbols::fundamental_group::fundamental_group;
use rust_dsymbols::generators::dset_generators::DSets;
use rust_dsymbols::generators::dsym_generators::{DSyms, Geometries};

fn permutations(n: usize) -> Vec<Vec<usize>> {
    // permutations of 1..=n as vectors p with p[d] = new number of chamber d (index 0 unused)
    fn rec(n: usize, cur: &mut Vec<usize>, used: &mut Vec<bool>, out: &mut Vec<Vec<usize>>) {
        if cur.len() == n + 1 { out.push(cur.clone()); return; }
        for x in 1..=n {
            if !used[x] { used[x] = true; cur.push(x); rec(n, cur, used, out); cur.pop(); used[x] = false; }
        }
    }
    let mut out = vec![];
    rec(n, &mut vec![0], &mut vec![false; n + 1], &mut out);
    out
}

fn emit<T: DSym>(sym: &T) {
    let mut out = vec!["B".to_string(), sym.size().to_string()];
    for i in 0..=2 { for d in 1..=sym.size() { out.push(sym.op(i, d).unwrap_or(0).to_string()); } }
    for i in 0..2 { for d in 1..=sym.size() { out.push(sym.m(i, i + 1, d).unwrap_or(0).to_string()); } }
    println!("{}", out.join(" "));
    let g = fundamental_group(sym);
    println!("P {}", g.nr_generators());
    let ws: Vec<String> = g.relators.iter()
        .map(|w| w.iter().map(|x| x.to_string()).collect::<Vec<_>>().join(" ")).collect();
    println!("R {}", ws.join(" ; "));
    for (gen, (d, i)) in g.gen_to_edge.iter() { println!("G {} {} {}", gen, d, i); }
    for ((d, i), w) in g.edge_to_word.iter() {
        let l: Vec<String> = w.iter().map(|x| x.to_string()).collect();
        println!("E {} {} {}", d, i, l.join(" "));
    }
    for (w, deg) in g.cones.iter() {
        let l: Vec<String> = w.iter().map(|x| x.to_string()).collect();
        println!("K {} {}", deg, l.join(" "));
    }
}

fn main() {
    let args: Vec<String> = std::env::args().collect();
    let n: usize = args[2].parse().expect("number");
    let upto: usize = if args.len() > 3 { args[3].parse().expect("number") } else { 0 };
    let mut count = 0;
    for set in DSets::new(2, n) {
        for sym in DSyms::new(&set, Geometries::All) {
            count += 1;
            emit(&sym);
            let size = sym.size();
            if size <= upto && size > 1 {
                for p in permutations(size).into_iter().skip(1) {
                    // chamber d becomes p[d]
                    let mut inv = vec![0; size + 1];
                    for d in 1..=size { inv[p[d]] = d; }
                    let dset = build_set(size, 2, |i, e| sym.op(i, inv[e]).map(|x| p[x]));
                    let renum = build_sym_using_ms(dset, |i, e| sym.m(i, i + 1, inv[e]));
                    count += 1;
                    emit(&renum);
                }
            }
        }
    }
    println!("END {}", count);
}
