// Native driver for the C11 check (engine/gen11.py).  Copied into the scratch copy of the crate as
// examples/verif_c11.rs and built against the CURRENT tree; public API only.
//
// Configurations are input-free: a parameter-only presentation family (see verif_c12.rs) plus a
// subgroup given by a pattern:  triv (no generators), all (every generator), first ([1]),
// ab ([1,2]), pow<m> ([g^m] for every generator g), mix ([1,2,1] and [2]), second ([2]),
// sqab ([1,1], [2,2], [1,2]), comm ([1,2,-1,-2]), inv ([-1,2], [2,2]).
//
//   verif_c11 dump <family> <param> <pattern>
//       "G <nr_gens>", "R <relators>", "H <subgroup generators>", "T <rows> entries..." (as verif_c12),
//       "W <row> <letters...>" one line per coset representative, "END"
//   verif_c11 larger <family> <param> <pattern> <r> <x(1,0)> .. : replays a solver model: a transitive action on
//       r points that satisfies the relators and in which every subgroup generator fixes point 0, with r larger
//       than the number of rows of the table
use rust_dsymbols::fpgroups::cosets::{coset_representative, coset_table};
use rust_dsymbols::fpgroups::free_words::FreeWord;

fn presentation(family: &str, p: usize) -> (usize, Vec<Vec<isize>>) {
    match family {
        "F" => (p, vec![]),
        "Z" => {
            let mut r = vec![];
            for i in 1..=p as isize { for j in (i + 1)..=p as isize { r.push(vec![i, j, -i, -j]); } }
            (p, r)
        }
        "D" => {
            let mut ab = vec![];
            for _ in 0..p { ab.push(1); ab.push(2); }
            (2, vec![vec![1, 1], vec![2, 2], ab])
        }
        "C" => (1, vec![vec![1; p]]),
        // finite abelian Z_m x Z_m = <a,b | a^m, b^m, [a,b]>
        "A" => (2, vec![vec![1; p], vec![2; p], vec![1, 2, -1, -2]]),
        // a generator declared trivial by a relator of length 1: <a,b | a, b^m>
        "L" => (2, vec![vec![1], vec![2; p]]),
        // redundant generators: <a,b,c | c a^m, c^-1 b> (infinite cyclic, b = c = a^-m)
        "R" => { let mut w = vec![3]; w.extend(vec![1; p]); (3, vec![w, vec![-3, 2]]) }
        "S" => {
            let mut w = vec![];
            for i in 0..p as isize { let (a, b) = (2 * i + 1, 2 * i + 2); w.extend([a, b, -a, -b]); }
            (2 * p, vec![w])
        }
        "T" => {
            let (a, b, c) = (p / 100, (p / 10) % 10, p % 10);
            let mut ab = vec![];
            for _ in 0..c { ab.push(1); ab.push(2); }
            (2, vec![vec![1; a], vec![2; b], ab])
        }
        _ => panic!("unknown family"),
    }
}


fn subgroup(pattern: &str, n: usize) -> Vec<Vec<isize>> {
    match pattern {
        "triv" => vec![],
        "all" => (1..=n as isize).map(|g| vec![g]).collect(),
        "first" => vec![vec![1]],
        "ab" => vec![vec![1, 2]],
        "mix" => vec![vec![1, 2, 1], vec![2]],
        "second" => vec![vec![2]],
        "b3" => vec![vec![2, 2, 2]],
        "b2" => vec![vec![2, 2]],
        "a4" => vec![vec![1, 1, 1, 1]],
        "sqab" => vec![vec![1, 1], vec![2, 2], vec![1, 2]],
        "comm" => vec![vec![1, 2, -1, -2]],
        "inv" => vec![vec![-1, 2], vec![2, 2]],
        p if p.starts_with("pow") => {
            let m: usize = p[3..].parse().unwrap();
            (1..=n as isize).map(|g| vec![g; m]).collect()
        }
        _ => panic!("unknown pattern"),
    }
}

fn main() {
    let args: Vec<String> = std::env::args().collect();
    let num = |k: usize| -> usize { args[k].parse().expect("number") };
    let (n, rels) = presentation(args[2].as_str(), num(3));
    let sub = subgroup(args[4].as_str(), n);
    let fw = |ws: &Vec<Vec<isize>>| -> Vec<FreeWord> { ws.iter().map(|w| FreeWord::from(w.clone())).collect() };
    let t = coset_table(n, &fw(&rels), &fw(&sub));
    let show = |ws: &Vec<Vec<isize>>| ws.iter()
        .map(|w| w.iter().map(|x| x.to_string()).collect::<Vec<_>>().join(" ")).collect::<Vec<_>>().join(" ; ");
    match args[1].as_str() {
        "dump" => {
            println!("G {}", n);
            println!("R {}", show(&rels));
            println!("H {}", show(&sub));
            let mut flat = vec![];
            for c in 0..t.len() {
                for g in 1..=n as isize { flat.push(t.get(c, g).map(|x| x as isize).unwrap_or(-1).to_string()); }
                for g in 1..=n as isize { flat.push(t.get(c, -g).map(|x| x as isize).unwrap_or(-1).to_string()); }
            }
            println!("T {} {}", t.len(), flat.join(" "));
            for (row, w) in coset_representative(&t) {
                let letters: Vec<String> = w.iter().map(|x| x.to_string()).collect();
                println!("W {} {}", row, letters.join(" "));
            }
            println!("END");
        }
        "larger" => {
            let r = num(5);
            let x: Vec<Vec<usize>> = (0..n).map(|g| (0..r).map(|q| num(6 + g * r + q)).collect()).collect();
            for g in 0..n {
                let mut seen = vec![false; r];
                for q in 0..r {
                    if x[g][q] >= r || seen[x[g][q]] { println!("REFUTED generator {} is not a permutation", g + 1); return; }
                    seen[x[g][q]] = true;
                }
            }
            let apply = |q: usize, l: isize| -> usize {
                let g = (l.abs() - 1) as usize;
                if l > 0 { x[g][q] } else { (0..r).find(|&s| x[g][s] == q).unwrap() }
            };
            for w in &rels { for q in 0..r {
                if w.iter().fold(q, |c, &l| apply(c, l)) != q { println!("REFUTED relator {:?} moves point {}", w, q); return; }
            }}
            for w in &sub {
                if w.iter().fold(0, |c, &l| apply(c, l)) != 0 { println!("REFUTED subgroup generator {:?} moves point 0", w); return; }
            }
            let mut seen = vec![false; r]; seen[0] = true; let mut st = vec![0];
            while let Some(q) = st.pop() { for g in 0..n { let s = x[g][q]; if !seen[s] { seen[s] = true; st.push(s); } } }
            if !seen.iter().all(|&b| b) { println!("REFUTED not transitive"); return; }
            if r > t.len() {
                println!("CONFIRMED the index is at least {} but the table has {} rows", r, t.len());
            } else {
                println!("REFUTED the table has {} rows", t.len());
            }
        }
        _ => panic!("usage"),
    }
}
