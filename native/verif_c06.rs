// Native driver for the C06 check (engine/gen6.py).  Copied into the scratch copy of the
// crate as examples/verif_c06.rs and built against the CURRENT tree; uses the public API only.
//
//   verif_c06 dump <dim> <max_size>
//       one line per generated D-set:  "S <set_count> <size> <dim> <op(0,1)> ... <op(0,size)> <op(1,1)> ..."
//       (0 = undefined image), then "END <count>"
//   verif_c06 missing <dim> <max_size> <size> <ops...>
//       replays a solver counterexample to completeness: checks natively that the given D-set is valid,
//       connected, commuting, and isomorphic to NO generated D-set; prints "CONFIRMED missing" or "REFUTED ..."
//   verif_c06 duplicate <dim> <max_size> <k> <l>
//       replays a counterexample to irredundancy: outputs number k and l (1-based) are isomorphic
use rust_dsymbols::dsets::*;
use rust_dsymbols::generators::dset_generators::DSets;

fn table<T: DSet>(ds: &T) -> Vec<Vec<usize>> {
    (0..=ds.dim())
        .map(|i| (1..=ds.size()).map(|d| ds.op(i, d).unwrap_or(0)).collect())
        .collect()
}

/// isomorphism search for connected complete tables: the image of chamber 1 determines the map
fn isomorphic(a: &Vec<Vec<usize>>, b: &Vec<Vec<usize>>) -> bool {
    let n = a[0].len();
    if b[0].len() != n || a.len() != b.len() {
        return false;
    }
    'img: for img0 in 1..=n {
        let mut map = vec![0usize; n + 1];
        let mut inv = vec![0usize; n + 1];
        map[1] = img0;
        inv[img0] = 1;
        let mut queue = vec![1usize];
        while let Some(d) = queue.pop() {
            for i in 0..a.len() {
                let di = a[i][d - 1];
                let ei = b[i][map[d] - 1];
                if di == 0 || ei == 0 {
                    if di != ei { continue 'img; }
                    continue;
                }
                if map[di] == 0 {
                    if inv[ei] != 0 { continue 'img; }
                    map[di] = ei;
                    inv[ei] = di;
                    queue.push(di);
                } else if map[di] != ei {
                    continue 'img;
                }
            }
        }
        if (1..=n).all(|d| map[d] != 0) {
            return true;
        }
    }
    false
}

fn valid_connected_commuting(t: &Vec<Vec<usize>>) -> Result<(), String> {
    let n = t[0].len();
    for (i, row) in t.iter().enumerate() {
        for d in 1..=n {
            let e = row[d - 1];
            if e < 1 || e > n { return Err(format!("op({},{}) = {} out of range", i, d, e)); }
            if row[e - 1] != d { return Err(format!("op {} is not an involution at {}", i, d)); }
        }
    }
    for i in 0..t.len() {
        for j in (i + 2)..t.len() {
            for d in 1..=n {
                if t[j][t[i][d - 1] - 1] != t[i][t[j][d - 1] - 1] {
                    return Err(format!("ops {} and {} do not commute at {}", i, j, d));
                }
            }
        }
    }
    let mut seen = vec![false; n + 1];
    seen[1] = true;
    let mut stack = vec![1];
    while let Some(d) = stack.pop() {
        for row in t {
            let e = row[d - 1];
            if !seen[e] { seen[e] = true; stack.push(e); }
        }
    }
    if (1..=n).all(|d| seen[d]) { Ok(()) } else { Err("not connected".into()) }
}

fn main() {
    let args: Vec<String> = std::env::args().collect();
    let num = |k: usize| -> usize { args[k].parse().expect("number") };
    match args[1].as_str() {
        "dump" => {
            let (dim, n) = (num(2), num(3));
            let mut count = 0;
            for ds in DSets::new(dim, n) {
                count += 1;
                let t = table(&ds);
                let flat: Vec<String> = t.iter().flatten().map(|x| x.to_string()).collect();
                println!("S {} {} {} {}", ds.set_count(), ds.size(), ds.dim(), flat.join(" "));
            }
            println!("END {}", count);
        }
        "missing" => {
            let (dim, n, size) = (num(2), num(3), num(4));
            let t: Vec<Vec<usize>> = (0..=dim)
                .map(|i| (0..size).map(|d| num(5 + i * size + d)).collect())
                .collect();
            if let Err(e) = valid_connected_commuting(&t) {
                println!("REFUTED candidate is not in the universe: {}", e);
                return;
            }
            if size > n { println!("REFUTED candidate larger than the bound"); return; }
            for (k, ds) in DSets::new(dim, n).enumerate() {
                if isomorphic(&t, &table(&ds)) {
                    println!("REFUTED isomorphic to output {}", k + 1);
                    return;
                }
            }
            println!("CONFIRMED missing");
        }
        "duplicate" => {
            let (dim, n, k, l) = (num(2), num(3), num(4), num(5));
            let all: Vec<_> = DSets::new(dim, n).map(|ds| table(&ds)).collect();
            if k >= 1 && l >= 1 && k != l && k <= all.len() && l <= all.len()
                && isomorphic(&all[k - 1], &all[l - 1])
            {
                println!("CONFIRMED duplicate");
            } else {
                println!("REFUTED outputs {} and {} are not isomorphic", k, l);
            }
        }
        _ => panic!("usage"),
    }
}
